#!/bin/sh
# Build the Go harness against /repo's working tree (offline).
set -e
cd "$(dirname "$0")"
export GOFLAGS=-mod=mod GOPROXY=off GOSUMDB=off GOTOOLCHAIN=local
mkdir -p bin evidence
cp /repo/go.sum harness/go.sum
(cd harness && go build -tags verif -o ../bin/vh ./cmd/vh)
echo setup ok
