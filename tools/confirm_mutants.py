#!/usr/bin/env python3
"""Confirm seeded changes: each must apply to /repo's HEAD, pass the existing suite, and its demonstration must
fail with the change and pass without it. Works in a scratch worktree (removed afterwards)."""
import json, os, re, shutil, subprocess, sys
ENV = dict(os.environ, GOFLAGS="-mod=mod", GOPROXY="off", GOSUMDB="off", GOTOOLCHAIN="local")
WT = "/tmp/confirm-wt"

def sh(cmd, cwd=None, timeout=900):
    p = subprocess.run(cmd, shell=True, cwd=cwd, env=ENV, capture_output=True, text=True, timeout=timeout)
    return p.returncode, p.stdout + p.stderr

def main(dirs):
    sh("git -C /repo worktree remove --force %s" % WT)
    rc, out = sh("git -C /repo worktree add -q --detach %s HEAD" % WT)
    assert rc == 0, out
    try:
        for d in dirs:
            meta_p = os.path.join(d, "meta.json")
            meta = json.load(open(meta_p)) if os.path.exists(meta_p) else {}
            patch = os.path.join(d, "patch.diff")
            demo = os.path.join(d, "demo_test.go")
            res = {}
            sh("git reset -q --hard HEAD && git clean -fdq", cwd=WT)
            rc, out = sh("git apply %s" % patch, cwd=WT)
            threeway = False
            if rc != 0:
                rc, out = sh("git apply --3way %s" % patch, cwd=WT)
                threeway = True
                if rc == 0 and sh("git diff --name-only --diff-filter=U", cwd=WT)[1].strip():
                    rc = 1
            res["applies"] = rc == 0
            if rc != 0:
                res["apply_error"] = out[-500:]
                sh("git reset -q --hard HEAD", cwd=WT)
                meta["confirmed"] = res; json.dump(meta, open(meta_p, "w"), indent=1); print(d, res); continue
            if threeway:
                # keep a version of the patch that applies directly to the current HEAD
                sh("git reset -q", cwd=WT)
                rc, cur = sh("git diff", cwd=WT)
                shutil.copy(patch, patch + ".orig")
                open(patch, "w").write(cur)
            rc, out = sh("go build ./... && go test -vet=off -count=1 ./...", cwd=WT)
            res["suite_passes_with_change"] = rc == 0
            if rc != 0:
                res["suite_output"] = out[-800:]
            head = open(demo).read().splitlines()[:6]
            pkgdir = "."
            for l in head:
                m = re.search(r"DIR:\s*(\S+)", l)
                if m:
                    pkgdir = m.group(1).strip("`'\"")
            if pkgdir in ("root", "(root)", "repository", "/"):
                pkgdir = "."
            dst = os.path.join(WT, pkgdir, "zz_demo_%s_test.go" % os.path.basename(d).replace("-", "_"))
            shutil.copy(demo, dst)
            rc, out = sh("go test -vet=off -count=1 -run 'Demo|ZZ' ./%s" % pkgdir, cwd=WT, timeout=600)
            res["demo_fails_with_change"] = rc != 0
            res["demo_pkg"] = pkgdir
            sh("git reset -q --hard HEAD", cwd=WT)
            rc, out = sh("go test -vet=off -count=1 -run 'Demo|ZZ' ./%s" % pkgdir, cwd=WT, timeout=600)
            res["demo_passes_without_change"] = rc == 0
            if rc != 0:
                res["demo_clean_output"] = out[-800:]
            os.remove(dst)
            meta["confirmed"] = res
            json.dump(meta, open(meta_p, "w"), indent=1)
            print(d, {k: v for k, v in res.items() if isinstance(v, bool)})
    finally:
        sh("git -C /repo worktree remove --force %s" % WT)
        shutil.rmtree(WT, ignore_errors=True)

if __name__ == "__main__":
    main(sys.argv[1:])
