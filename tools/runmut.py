#!/usr/bin/env python3
"""tools/runmut.py <seeded-dir> [property ...]: apply the change to /repo, run the checks, undo it straight away."""
import json, os, subprocess, sys, time
def main():
    d = sys.argv[1].rstrip("/")
    meta = json.load(open(os.path.join(d, "meta.json")))
    props = sys.argv[2:] or [meta.get("property", os.path.basename(d)[:3])]
    tier = os.environ.get("VERIF_TIER", "quick")
    assert subprocess.run("git -C /repo status --porcelain", shell=True, capture_output=True, text=True).stdout.strip() == "", "/repo not clean"
    rc = subprocess.run("git -C /repo apply %s/patch.diff || git -C /repo apply --3way %s/patch.diff" % (d, d), shell=True).returncode
    if rc != 0:
        print("APPLY FAILED", d); return 3
    out = {}
    try:
        for p in props:
            t0 = time.time()
            r = subprocess.run(["/verif/check", p, "--tier", tier], capture_output=True, text=True, cwd="/verif")
            lines = [l for l in r.stdout.splitlines() if l.startswith(("VIOLATION", "KNOWN", "OK", "INCONCLUSIVE"))]
            out[p] = (r.returncode, lines[:3], round(time.time() - t0))
            print("%s on %s: rc=%d %s (%ds)" % (os.path.basename(d), p, r.returncode, lines[:2], time.time() - t0))
    finally:
        subprocess.run("git -C /repo checkout -q -- . && git -C /repo reset -q", shell=True)
        subprocess.run("git -C /repo status --porcelain", shell=True)
    return 0
sys.exit(main())
