#!/usr/bin/env python3
"""tools/runmut.py <seeded-dir> [property ...]: apply the change in a scratch worktree of /repo (removed afterwards)
and run the checks against it (VERIF_REPO); /repo itself stays untouched."""
import json, os, subprocess, sys, time, shutil
def main():
    d = os.path.abspath(sys.argv[1].rstrip("/"))
    meta = json.load(open(os.path.join(d, "meta.json")))
    props = sys.argv[2:] or [meta.get("property", os.path.basename(d)[:3])]
    tier = os.environ.get("VERIF_TIER", "quick")
    wt = "/tmp/mutwt-%s-%d" % (os.path.basename(d), os.getpid())
    subprocess.run("git -C /repo worktree add -q --detach %s HEAD" % wt, shell=True, check=True)
    try:
        rc = subprocess.run("git -C %s apply %s/patch.diff" % (wt, d), shell=True).returncode
        if rc != 0:
            print("APPLY FAILED", d); return 3
        for p in props:
            t0 = time.time()
            r = subprocess.run(["timeout", "1500", "/verif/check", p, "--tier", tier], capture_output=True, text=True, cwd="/verif",
                               env=dict(os.environ, VERIF_REPO=wt, VERIF_EVID="/tmp/mut-evid"))
            lines = [l for l in r.stdout.splitlines() if l.startswith(("VIOLATION", "KNOWN", "OK", "INCONCLUSIVE", "DIVERGENCE"))]
            lines.sort(key=lambda l: 0 if l.startswith("VIOLATION") else 1)
            nv = sum(1 for l in lines if l.startswith("VIOLATION"))
            print("%s on %s: rc=%d nviol=%d %s (%ds)" % (os.path.basename(d), p, r.returncode, nv, [l[:160] for l in lines[:2]], time.time() - t0), flush=True)
    finally:
        subprocess.run("git -C /repo worktree remove --force %s" % wt, shell=True)
        shutil.rmtree(wt, ignore_errors=True)
    return 0
sys.exit(main())
