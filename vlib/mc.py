"""Bounded TLC configurations of Dials.tla (one per property family and tier) and behaviour export."""
import os
import re

from . import common as C

TOGGLES = ["BUG_CloseCbq", "BUG_UnregCap", "BUG_SrcErrSuppress", "BUG_StoreBeforeVerify", "BUG_FilterGT", "BUG_CatchupLE",
           "BUG_ReplyBeforeStore", "BUG_SerialPlus2", "BUG_NoSlotUpdate"]

INVARIANTS = ["TypeOK", "C04_VisibleVerified", "C04_InstalledVerified", "C04_ErrArgs", "C05_SerialCountsInstalls",
              "C05_ViewIsFreshStack", "C06_NoStale", "C06_OldIsPred", "C06_NoSkip", "C06_NoCallAfterUnreg", "C06_CatchUpIff",
              "C06_GlobalInOrder", "C07_NilMeansInstalled", "C07_ErrMeansNotInstalled", "C08_NoCrash", "C08_LateCallsFail",
              "C09_NoVerifyBeforeEnable", "C09_WithheldOnlyWhileDelayed"]
ACTION_PROPS = ["C04_RejectInstallsNothing", "C05_SerialStep", "C09_EnableVerifiesInstalled", "C09_VerifiedWhenNotDelayed"]
LIVENESS = ["C08_ShutdownCompletes", "C08_CancelStopsMonitor"]


def S(*xs):
    return "{" + ", ".join('"%s"' % x for x in xs) + "}"


BASE = dict(NSrc=1, InitVal="Init1", Vals="ValsGood1", Def="Def0", Clients="C1", CbCap=2, MaxSerial=3, MaxRepOps=2, MaxCliOps=2,
            RepOps=S("val"), CliOps=S("view"), AllowRepCancel="FALSE", AllowCliCancel="FALSE", AllowCancel="FALSE",
            BlockingCbs="FALSE", Skip="FALSE", Delay="FALSE", Suppress="FALSE", OnNew="TRUE", OnErr="TRUE")

# family -> tier -> overrides  (sizes measured; see DESIGN.md 4.1)
FAMILIES = {
    "C04": {
        "quick": dict(NSrc=2, InitVal="Init2", Vals="ValsAll", MaxRepOps=1, MaxCliOps=1, RepOps=S("val", "block"), CliOps=S("view"), MaxSerial=2),
        "thorough": dict(NSrc=2, InitVal="Init2", Vals="ValsAll", MaxRepOps=2, MaxCliOps=1, RepOps=S("val", "block"), CliOps=S("view"), MaxSerial=3),
    },
    "C05": {
        "quick": dict(NSrc=2, InitVal="Init2", Vals="ValsXY", MaxRepOps=1, MaxCliOps=2, RepOps=S("val", "block"), CliOps=S("view"), MaxSerial=2),
        "thorough": dict(NSrc=2, InitVal="Init2", Vals="ValsXY", MaxRepOps=2, MaxCliOps=2, RepOps=S("val"), CliOps=S("view"), MaxSerial=4),
    },
    "C06": {
        "quick": dict(MaxRepOps=2, MaxCliOps=3, CliOps=S("view", "reg", "unreg"), MaxSerial=2),
        "thorough": dict(MaxRepOps=3, MaxCliOps=3, CliOps=S("view", "reg", "unreg"), MaxSerial=3, BlockingCbs="TRUE"),
    },
    "C07": {
        "quick": dict(NSrc=2, InitVal="Init2", Vals="ValsGoodBad", MaxRepOps=1, MaxCliOps=1, RepOps=S("block"), AllowRepCancel="TRUE", MaxSerial=2),
        # measured: 564k distinct states in 8 s; two sources with two operations each and cancellation did not finish in 40 minutes,
        # the two-source interleavings are covered by the quick configuration, which the thorough tier checks as well
        "thorough": dict(NSrc=1, InitVal="Init1", Vals="ValsAll", MaxRepOps=3, MaxCliOps=1, RepOps=S("val", "block"), AllowRepCancel="TRUE", MaxSerial=3),
    },
    "C08": {
        "quick": dict(MaxRepOps=2, MaxCliOps=2, RepOps=S("val", "done"), CliOps=S("reg", "unreg"), AllowCancel="TRUE", AllowCliCancel="TRUE", MaxSerial=2),
        # measured: 6.8M distinct states in 3 minutes (with two sources it did not finish in 40 minutes)
        "thorough": dict(NSrc=1, InitVal="Init1", MaxRepOps=2, MaxCliOps=3, RepOps=S("val", "done"), CliOps=S("view", "reg", "unreg"),
                         AllowCancel="TRUE", AllowCliCancel="TRUE", MaxSerial=2, BlockingCbs="TRUE"),
    },
    "C09": {
        "quick": dict(Vals="ValsGoodBad", InitVal="Init1", MaxRepOps=2, MaxCliOps=2, RepOps=S("val", "err"), CliOps=S("enable"), Delay="TRUE", Suppress="TRUE", MaxSerial=2),
        "thorough": dict(Vals="ValsGoodBad", MaxRepOps=2, MaxCliOps=3, RepOps=S("val", "block", "err"), CliOps=S("enable", "view"), Delay="TRUE", Suppress="TRUE",
                         MaxSerial=3, AllowCliCancel="TRUE"),
    },
}


def write_cfg(path, consts, toggles=(), liveness=False, invariants=True):
    lines = ["SPECIFICATION %s" % ("FairSpec" if liveness else "Spec"), "CONSTANTS"]
    for k, v in consts.items():
        op = "<-" if isinstance(v, str) and re.match(r"^[A-Z][A-Za-z0-9]*$", v) and v not in ("TRUE", "FALSE") else "="
        lines.append("  %s %s %s" % (k, op, v))
    for t in TOGGLES:
        lines.append("  %s = %s" % (t, "TRUE" if t in toggles else "FALSE"))
    lines += ["VIEW View", "CHECK_DEADLOCK FALSE"]
    if invariants:
        lines.append("INVARIANTS " + " ".join(INVARIANTS))
        lines.append("PROPERTIES " + " ".join(ACTION_PROPS + (LIVENESS if liveness else [])))
    open(path, "w").write("\n".join(lines) + "\n")


def consts_for(family, tier, **over):
    c = dict(BASE)
    c.update(FAMILIES[family][tier])
    c.update(over)
    return c


def model_check(scratch, family, tier, toggles=(), timeout=1500, tag="mc", **over):
    d = scratch.sub(tag)
    C.copy_specs(d, ["Dials.tla", "MCDials.tla", "KernelData.tla"])
    write_cfg(os.path.join(d, "MC.cfg"), consts_for(family, tier, **over), toggles)
    return C.run_tlc(d, "MCDials", "MC.cfg", timeout=timeout)


ACT_RE = re.compile(r"/\\ lastAct = \[(.*?)\]", re.S)


def parse_behaviour(path):
    acts = []
    for m in ACT_RE.finditer(open(path).read()):
        rec = {}
        for part in m.group(1).split(","):
            if "|->" not in part:
                continue
            k, v = part.split("|->")
            k, v = k.strip(), v.strip()
            if v.startswith('"'):
                rec[k] = v.strip('"')
            elif v in ("TRUE", "FALSE"):
                rec[k] = v == "TRUE"
            else:
                rec[k] = int(v)
        acts.append(rec)
    return acts


def simulate(scratch, family, tier, num, depth, seed, tag="sim", **over):
    """TLC -simulate: returns a list of behaviours (lists of lastAct records)."""
    d = scratch.sub(tag)
    C.copy_specs(d, ["Dials.tla", "MCDials.tla", "KernelData.tla"])
    consts = consts_for(family, tier, **over)
    write_cfg(os.path.join(d, "MC.cfg"), consts, invariants=False)
    res = C.run_tlc(d, "MCDials", "MC.cfg", workers=1, timeout=900,
                    extra=["-simulate", "file=%s,num=%d" % (os.path.join(d, "b"), num), "-depth", str(depth), "-seed", str(seed)])
    out = []
    for f in sorted(os.listdir(d)):
        if re.match(r"b_\d+_\d+$", f):
            out.append(parse_behaviour(os.path.join(d, f)))
            os.remove(os.path.join(d, f))
    if not out:
        raise C.Inconclusive("TLC simulation produced no behaviours:\n" + res.out[-2000:])
    return out, consts, res


VALSETS = {
    "Init1": [{"x": 11, "y": 0, "u": False}],
    "Init2": [{"x": 11, "y": 0, "u": False}, {"x": 0, "y": 21, "u": False}],
}


def scenario_from_behaviour(acts, consts, sid):
    """Turn a specification behaviour into harness programs plus the schedule that reproduces it."""
    procs, sched = {}, []
    for a in acts:
        n, i = a.get("a"), a.get("i", 0)
        if n == "Init":
            continue
        if n == "RepStart":
            op = {"op": a["op"]}
            if a["op"] in ("val", "block"):
                op["v"] = {"x": a["x"], "y": a["y"], "u": a["u"]}
            procs.setdefault("r%d" % i, []).append(op)
            sched.append("r%d" % i)
        elif n in ("RepGiveUp", "RepGotReply"):
            sched.append("r%d" % i)
        elif n == "RepCancel":
            sched.append("!r%d" % i)
        elif n == "MonRecv":
            sched.append("mon+r%d" % i)
        elif n.startswith("Mon"):
            sched.append("mon")
        elif n.startswith("Cb"):
            sched.append("cb")
        elif n == "CliView":
            procs.setdefault("c%d" % i, []).append({"op": "view"})
            sched.append("c%d" % i)
        elif n == "CliEnableNoop":
            procs.setdefault("c%d" % i, []).append({"op": "enable"})
            sched.append("c%d" % i)
        elif n == "CliStart":
            if a["op"] == "reg":
                op = {"op": "reg", "tok": "last" if a["x"] == 1 else "zero"}
                if a["y"] == 1:
                    op["block"] = True
            elif a["op"] == "unreg":
                op = {"op": "unreg", "h": a["h"]}
            else:
                op = {"op": "enable"}
            procs.setdefault("c%d" % i, []).append(op)
            sched.append("c%d" % i)
        elif n == "CliCancel":
            sched.append("!c%d" % i)
        elif n.startswith("Cli"):
            sched.append("c%d" % i)
        elif n == "Cancel":
            sched.append("!ctx")
        elif n == "EventsRecv":
            procs.setdefault("e1", []).append({"op": "events"})
            sched.append("e1")
    b = lambda k: consts[k] == "TRUE"
    nsrc = int(consts["NSrc"])
    return {"id": sid, "mode": "plan", "seed": 0, "skip": b("Skip"), "delay": b("Delay"), "suppress": b("Suppress"),
            "onnew": b("OnNew"), "onerr": b("OnErr"), "cbcap": int(consts["CbCap"]), "def": {"x": 1, "y": 2, "u": False},
            "init": VALSETS[consts["InitVal"]][:nsrc], "procs": procs, "schedule": sched, "oracle": True, "maxsteps": 400,
            "pcancel": 0.0, "cancelok": [], "spec_actions": [a.get("a") for a in acts if a.get("a") != "Init"]}


def apalache_inductive(scratch):
    """DialsCore.tla: IndInv holds initially and is preserved by every step (Apalache, symbolic, serials unbounded); with the seeded
    mistake switched on the same check must fail (self-test)."""
    import shutil
    import subprocess
    d = scratch.sub("apalache")
    C.copy_specs(d, ["DialsCore.tla"])
    if not shutil.which("apalache-mc"):
        raise C.Inconclusive("apalache-mc is not on PATH")

    def run(cinit, init, length):
        try:
            p = subprocess.run(["apalache-mc", "check", "--cinit=" + cinit, "--init=" + init, "--inv=IndInv", "--length=%d" % length,
                                "--out-dir=" + os.path.join(d, "out"), "DialsCore.tla"], cwd=d, capture_output=True, text=True, timeout=900)
        except subprocess.TimeoutExpired:
            raise C.Inconclusive("apalache timed out")
        out = p.stdout + p.stderr
        if "The outcome is: NoError" in out:
            return True
        if "The outcome is: Error" in out or "violat" in out.lower():
            return False
        raise C.Inconclusive("apalache failed:\n" + out[-2000:])
    base = run("ConstInit", "Init", 0)
    step = run("ConstInit", "IndInit", 1)
    bug = run("ConstInitBug", "IndInit", 1)
    if not (base and step):
        raise C.Inconclusive("DialsCore.tla: IndInv is not inductive (base %s, step %s): specification alarm" % (base, step))
    if bug:
        raise C.Inconclusive("DialsCore.tla self-test: the seeded mistake no longer breaks IndInv")
    return {"spec": "DialsCore.tla", "invariant": "IndInv = TypeOK /\\ VisibleVerified /\\ FreshOrLastGood /\\ SerialCounts",
            "base_case": base, "inductive_step": step, "seeded_mistake_breaks_it": not bug, "tool": "apalache-mc check --length=0/1"}
