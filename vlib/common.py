"""Shared plumbing for the checks: scratch dirs, harness build, TLC runs, evidence, known findings."""
import json
import os
import re
import shutil
import signal
import subprocess
import sys
import tempfile
import time

VERIF = os.path.dirname(os.path.dirname(os.path.abspath(__file__)))
REPO = os.environ.get("VERIF_REPO", "/repo")
SPEC = os.path.join(VERIF, "spec")
EVID = os.environ.get("VERIF_EVID") or os.path.join(VERIF, "evidence")
REPLAYS = os.path.join(EVID, "replays")

GOENV = dict(os.environ, GOFLAGS="-mod=mod", GOPROXY="off", GOSUMDB="off", GOTOOLCHAIN="local")


class Inconclusive(Exception):
    """Harness trouble (tool crash, timeout, build failure): exit 2, never a violation."""


def seed():
    try:
        return int(os.environ.get("VERIF_SEED", "1"))
    except ValueError:
        return 1


class Scratch:
    def __init__(self, tag):
        base = os.environ.get("VERIF_SCRATCH") or tempfile.gettempdir()
        self.dir = tempfile.mkdtemp(prefix="verif-%s-" % tag, dir=base)

    def path(self, *p):
        return os.path.join(self.dir, *p)

    def sub(self, name):
        d = self.path(name)
        os.makedirs(d, exist_ok=True)
        return d

    def cleanup(self):
        if os.environ.get("VERIF_KEEP"):
            print("scratch kept:", self.dir)
            return
        shutil.rmtree(self.dir, ignore_errors=True)


def build_harness(scratch):
    """Build the Go harness against /repo's current working tree with the verif tag."""
    hdir = scratch.sub("harness")
    src = os.path.join(VERIF, "harness")
    for root, dirs, files in os.walk(src):
        rel = os.path.relpath(root, src)
        os.makedirs(os.path.join(hdir, rel), exist_ok=True)
        for f in files:
            shutil.copy(os.path.join(root, f), os.path.join(hdir, rel, f))
    gomod = open(os.path.join(hdir, "go.mod")).read()
    gomod = re.sub(r"replace github.com/vimeo/dials => \S+", "replace github.com/vimeo/dials => " + REPO, gomod)
    open(os.path.join(hdir, "go.mod"), "w").write(gomod)
    shutil.copy(os.path.join(REPO, "go.sum"), os.path.join(hdir, "go.sum"))
    out = scratch.path("vh")
    p = subprocess.run(["go", "build", "-tags", "verif", "-o", out, "./cmd/vh"], cwd=hdir, env=GOENV,
                       capture_output=True, text=True)
    if p.returncode != 0:
        raise Inconclusive("harness build failed (does /repo compile with -tags verif?):\n" + p.stdout + p.stderr)
    return out


TLC_STATS = re.compile(r"(\d+) states generated, (\d+) distinct states found, (\d+) states left on queue")


class TLCResult:
    def __init__(self, out, rc, wall):
        self.out, self.rc, self.wall = out, rc, wall
        m = None
        for m in TLC_STATS.finditer(out):
            pass
        self.generated = int(m.group(1)) if m else 0
        self.distinct = int(m.group(2)) if m else 0
        self.queue = int(m.group(3)) if m else 0
        self.ok = "Model checking completed. No error has been found." in out or \
                  ("Finished in" in out and "Error:" not in out and rc == 0)
        self.violated = re.findall(r"Invariant (\S+) is violated", out) + \
            re.findall(r"Action property (\S+) is violated", out) + \
            re.findall(r"Temporal properties were violated", out)
        self.deadlock = "Deadlock reached" in out
        d = re.search(r"The depth of the complete state graph search is (\d+)", out)
        self.depth = int(d.group(1)) if d else 0

    def printed(self, tag):
        """Values printed with PrintT(<<tag, ...>>), one list of raw argument strings per line."""
        res = []
        for line in self.out.splitlines():
            if line.startswith('<<"%s"' % tag):
                res.append(line)
        return res


def run_tlc(workdir, module, cfg, workers=None, timeout=1800, extra=(), java_opts=None, heap=None):
    """Run TLC in workdir (a scratch copy of the needed modules). Raises Inconclusive on tool trouble."""
    if workers is None:
        workers = min(16, os.cpu_count() or 4)
    md = os.path.join(workdir, "md-%s-%d" % (module, int(time.time() * 1000) % 100000))
    cmd = ["tlc", "-workers", str(workers), "-metadir", md, "-config", cfg] + list(extra) + [module + ".tla"]
    env = dict(os.environ)
    if java_opts:
        env["JAVA_TOOL_OPTIONS"] = java_opts
    t0 = time.time()
    # own process group: on a time-out exactly this run's JVM is killed (never another check's)
    proc = subprocess.Popen(cmd, cwd=workdir, stdout=subprocess.PIPE, stderr=subprocess.STDOUT, text=True, env=env, start_new_session=True)
    try:
        stdout, _ = proc.communicate(timeout=timeout)
    except subprocess.TimeoutExpired:
        try:
            os.killpg(proc.pid, signal.SIGKILL)
        except OSError:
            pass
        proc.wait()
        raise Inconclusive("TLC timed out after %ds: %s" % (timeout, " ".join(cmd)))
    finally:
        shutil.rmtree(md, ignore_errors=True)

    class _P:
        pass
    p = _P()
    p.returncode, p.stdout, p.stderr = proc.returncode, stdout, ""
    out = p.stdout
    res = TLCResult(out, p.returncode, time.time() - t0)
    if "java.lang.OutOfMemoryError" in out or ("StackOverflowError" in out and not res.violated):
        raise Inconclusive("TLC resource failure:\n" + out[-2000:])
    if ("Parsing or semantic analysis failed" in out or "was not found" in out and "Error" in out) and not res.ok:
        raise Inconclusive("TLC could not load the specification:\n" + out[-3000:])
    return res


def copy_specs(dst, names):
    for n in names:
        shutil.copy(os.path.join(SPEC, n), os.path.join(dst, n))


def load_known():
    p = os.path.join(VERIF, "known_findings.json")
    if not os.path.exists(p):
        return {"findings": [], "fixed": []}
    return json.load(open(p))


def write_evidence(pid, tier, level, coverage, wall, violations, assumptions=None):
    os.makedirs(EVID, exist_ok=True)
    ev = {"property_id": pid, "tier": tier, "seed": seed(), "level": level, "coverage": coverage,
          "assumptions": assumptions or [], "wall_s": round(wall, 2), "violations": violations}
    tmp = os.path.join(EVID, pid + ".json.tmp")
    json.dump(ev, open(tmp, "w"), indent=1, sort_keys=True)
    os.replace(tmp, os.path.join(EVID, pid + ".json"))


def write_replay(pid, name, obj):
    os.makedirs(REPLAYS, exist_ok=True)
    safe = re.sub(r"[^A-Za-z0-9_.-]", "_", name)
    p = os.path.join(REPLAYS, "%s_%s.json" % (pid, safe))
    json.dump(obj, open(p, "w"), indent=1)
    return p


def finish(pid, violations, known_hits=()):
    """Print the verdict lines and return the exit code. violations: list of (what, replay_path)."""
    for k in known_hits:
        print("KNOWN-FINDING: property=%s %s" % (pid, k))
    if violations:
        seen = set()
        for what, path in violations:
            if path in seen:
                continue
            seen.add(path)
            print("VIOLATION property=%s replay=%s  (%s)" % (pid, path, what))
        return 1
    print("OK property=%s" % pid)
    return 0
