"""C20: source wrappers. TLC enumerates operation sequences of spec/Wrap.tla (checking the Blank rules and
transparency on the model) and emits each as a test case with the model's prediction; the Go driver executes every
case against the real sourcewrap package next to a natively fed reference Dials."""
import json
import os
import subprocess
import time
from concurrent.futures import ThreadPoolExecutor

from . import common as C

ALL_WRAPS = '{"none", "set", "tag", "alias", "aliasset"}'
CONFIGS = {
    "quick": [
        dict(Mode='"blank"', Wraps='{"none", "set", "alias"}', AVals="{0, 1, 13}", SVals='{"unset", "p", "empty"}', MaxOps=3),
        dict(Mode='"blank"', Wraps=ALL_WRAPS, AVals="{0, 1, 2}", SVals='{"unset", "empty", "p", "pq"}', MaxOps=2),
        dict(Mode='"direct"', Wraps=ALL_WRAPS, AVals="{0, 1, 2}", SVals='{"unset", "empty", "p", "pq"}', MaxOps=3),
        # overlapping SetSource calls (the Blank's mutex makes them atomic): small value universe, every pair overlapped or not
        dict(Mode='"blank"', Wraps='{"none"}', AVals="{1, 2}", SVals='{"unset"}', MaxOps=3, Overlap="TRUE"),
        # a Blank inside a transforming source (seeded outer mangler list), inner sources plain or wrapped once more
        dict(Mode='"tblank"', Outer="?", Wraps='{"none", "set"}', AVals="{1, 13}", SVals='{"unset", "p"}', MaxOps=3),
    ],
    "thorough": [
        # sizes measured: 283k / ~730k / ~205k / ~46k histories (every history is emitted by one TLC worker and executed)
        dict(Mode='"blank"', Wraps='{"none", "aliasset"}', AVals="{1}", SVals='{"unset", "p"}', MaxOps=4),
        dict(Mode='"blank"', Wraps='{"none", "set", "alias"}', AVals="{0, 1}", SVals='{"unset", "empty", "pq"}', MaxOps=3),
        dict(Mode='"direct"', Wraps=ALL_WRAPS, AVals="{0, 1}", SVals='{"unset", "empty", "pq"}', MaxOps=4),
        dict(Mode='"blank"', Wraps='{"none"}', AVals="{1, 2}", SVals='{"unset", "p"}', MaxOps=3, Overlap="TRUE"),
        dict(Mode='"tblank"', Outer='"alias"', Wraps='{"none", "set"}', AVals="{0, 1, 13}", SVals='{"unset", "pq"}', MaxOps=3),
        dict(Mode='"blank"', Wraps='{"none", "alias"}', AVals="{1, 13}", SVals='{"unset"}', MaxOps=4),
        dict(Mode='"tblank"', Outer='"set"', Wraps='{"none", "tag"}', AVals="{0, 1}", SVals='{"unset", "empty", "p"}', MaxOps=3),
        dict(Mode='"tblank"', Outer='"tag"', Wraps='{"none", "alias"}', AVals="{0, 1}", SVals='{"unset", "p"}', MaxOps=3),
    ],
}
QUICK_CAP = 25000      # cases executed per configuration in the quick tier (seeded sample beyond it)


def write_cfg(path, consts, toggles=(), emit=True):
    lines = ["SPECIFICATION Spec", "CONSTANTS"]
    for k, v in dict({"Overlap": "FALSE", "Outer": '"none"'}, **consts).items():
        lines.append("  %s = %s" % (k, v))
    for t in ("BUG_NoReverse", "BUG_ReplaceWatcher"):
        lines.append("  %s = %s" % (t, "TRUE" if t in toggles else "FALSE"))
    lines += ["INVARIANT Transparent", "PROPERTIES RefuseReplaceWatcher DoneOnlyIfOwner FailingChangesNothing", "CHECK_DEADLOCK FALSE"]
    if emit:
        lines.append("CONSTRAINT Emit")
    open(path, "w").write("\n".join(lines) + "\n")


def emit_cases(scratch, idx, consts, toggles=(), emit=True):
    d = scratch.sub("wrap%d%s" % (idx, "".join(toggles)))
    C.copy_specs(d, ["Wrap.tla"])
    write_cfg(os.path.join(d, "W.cfg"), consts, toggles, emit)
    res = C.run_tlc(d, "Wrap", "W.cfg", workers=1, timeout=1500)
    cases = []
    mode = consts["Mode"].strip('"')
    for line in res.out.splitlines():
        if line.startswith('<<"CASE"'):
            js = line[line.index(",") + 1:].strip()
            js = js[:js.rindex(">>")].strip()
            cases.append({"mode": mode, "outer": consts.get("Outer", '"none"').strip('"'), "hist": json.loads(json.loads(js))})
    return cases, res


def run_cases(vh, scratch, cases, workers=12, subcmd="wrap"):
    chunks = [cases[i::workers] for i in range(workers)]
    chunks = [c for c in chunks if c]

    def one(i, chunk):
        results, crashes = [], []
        todo = chunk
        part = 0
        while todo:
            part += 1
            cf, rf = scratch.path("%sc%d.%d" % (subcmd, i, part)), scratch.path("%sr%d.%d" % (subcmd, i, part))
            with open(cf, "w") as f:
                for c in todo:
                    f.write(json.dumps(c) + "\n")
            p = subprocess.run([vh, subcmd, cf, rf], capture_output=True, text=True, timeout=3000)
            begun, done = [], {}
            if os.path.exists(rf):
                for line in open(rf):
                    try:
                        r = json.loads(line)
                    except ValueError:
                        continue
                    if "begin" in r:
                        begun.append(r["begin"])
                    elif "id" in r:
                        done[r["id"]] = r
                    elif r.get("final") and r.get("leaked"):
                        results.append({"id": "leak-%d" % i, "mismatches": [{"step": -1, "kind": "ref", "detail": "%d library goroutines left after all contexts were cancelled" % r["leaked"]}]})
            results.extend(done.values())
            if p.returncode == 0:
                break
            inflight = [b for b in begun if b not in done]
            if not inflight:
                raise C.Inconclusive(subcmd + " worker failed outside a case: rc=%d %s" % (p.returncode, p.stderr[-1500:]))
            cur = inflight[-1]
            first = next((l for l in p.stderr.splitlines() if l.startswith("panic:") or l.startswith("fatal error:")), p.stderr[:200])
            crashes.append((cur, first, p.stderr[-2500:]))
            if len(crashes) >= 5:
                break        # enough evidence; do not grind through a tree that crashes on everything
            ids = [c["id"] for c in todo]
            todo = todo[ids.index(cur) + 1:]
        return results, crashes

    res, crashes = [], []
    with ThreadPoolExecutor(max_workers=workers) as ex:
        for r, c in ex.map(lambda a: one(*a), list(enumerate(chunks))):
            res.extend(r)
            crashes.extend(c)
    return res, crashes


def blank_context_cases(vh, scratch, seed, quick=True, want="c07"):
    """C07 on Blank.SetSource: the Blank histories of Wrap.tla in which a blocking path's return value is put to the test (the
    monitor is gone, a value is rejected by Verify, the same source object is set again), executed with the driver's watchdog.
    Returns the mismatches that breach C07: not back after its context ended, nil before the value was visible, nil for a
    rejected value, view not what the nil promised."""
    consts = dict(Mode='"blank"', Wraps='{"none"}', AVals="{1, 13}", SVals='{"unset", "p"}', MaxOps=3 if quick else 4)
    cases, res = emit_cases(scratch, 70, consts)
    if not res.ok:
        raise C.Inconclusive("Wrap.tla violates its own properties (%s): specification alarm" % res.violated)
    # the same with the Blank behind a transforming source (its blocking report goes through the wrapper's WatchArgs)
    consts2 = dict(Mode='"tblank"', Outer='"set"', Wraps='{"none"}', AVals="{1, 13}", SVals='{"unset", "p"}', MaxOps=3)
    cases2, res2 = emit_cases(scratch, 71, consts2)
    if not res2.ok:
        raise C.Inconclusive("Wrap.tla violates its own properties (%s): specification alarm" % res2.violated)
    cases += cases2
    sel = [c for c in cases if any(h["op"] == "setagain" or h["a"] == 13 or (h["op"].startswith("set") and not prev["alive"])
                                   or (want == "panic" and h["op"] == "setwatcher")
                                   for prev, h in zip([{"alive": True}] + c["hist"], c["hist"]))]
    if quick and len(sel) > 6000:
        import random
        sel = random.Random(seed).sample(sel, 6000)
    for k, c in enumerate(sel):
        c["id"] = "wc-%d" % k
    results, crashes = run_cases(vh, scratch, sel)
    byid = {c["id"]: c for c in sel}
    out = []
    for cid, first, stderr in crashes:
        out.append(("the process died: " + first, byid.get(cid)))
    for r in results:
        for m in r.get("mismatches") or []:
            if (want == "c07" and m.get("c07")) or (want == "panic" and m.get("kind") in ("panic", "leak")):
                out.append((m["detail"], byid.get(r["id"])))
    return out, len(sel), res.distinct


def run_check(pid, tier, replay=None):
    import random
    t0 = time.time()
    scratch = C.Scratch(pid)
    try:
        vh = C.build_harness(scratch)
        if replay:
            obj = json.load(open(replay))
            if obj.get("kind") == "sources":
                res, crashes = run_cases(vh, scratch, obj["cases"], workers=1, subcmd="sources")
                bad = crashes or [m for r in res for m in (r.get("mismatches") or []) if m.get("prop") == "C20"]
            else:
                res, crashes = run_cases(vh, scratch, [obj["case"]], workers=1)
                bad = crashes or [m for r in res for m in (r.get("mismatches") or []) if m["kind"] in ("ref", "panic", "ctx")]
            print("replay:", "reproduced" if bad else "not reproduced", (crashes or bad)[:1])
            if bad:
                print("VIOLATION property=%s replay=%s  (reproduced)" % (pid, replay))
            return 1 if bad else 0
        rng = random.Random(C.seed())
        all_cases, states, trans, model_runs = [], 0, 0, []
        configs = [dict(c) for c in CONFIGS[tier]]
        if tier == "quick":
            # depth 3 on a seeded slice of the alphabets; the full alphabets at depth 2 (blank) / 3 (direct)
            configs[0]["Wraps"] = '{"none", "%s"}' % rng.choice(["set", "tag", "alias", "aliasset"])
            configs[0]["SVals"] = '{"unset", "%s"}' % rng.choice(["p", "empty", "pq"])
            for c in configs:
                if c.get("Outer") == "?":
                    c["Outer"] = '"%s"' % rng.choice(["set", "tag", "alias", "aliasset"])
        for i, consts in enumerate(configs):
            cases, res = emit_cases(scratch, i, consts)
            if not res.ok:
                raise C.Inconclusive("Wrap.tla violates its own properties (%s): specification alarm\n%s" % (res.violated, res.out[-1500:]))
            states += res.distinct
            trans += res.generated
            model_runs.append({"constants": consts, "distinct_states": res.distinct, "cases_emitted": len(cases), "exhaustive": True})
            if tier == "quick" and len(cases) > QUICK_CAP:
                cases = rng.sample(cases, QUICK_CAP)
                model_runs[-1]["cases_executed_sample"] = QUICK_CAP
            for k, c in enumerate(cases):
                c["id"] = "w%d-%d" % (i, k)
            all_cases.extend(cases)
        selftest = {}
        for tog in ("BUG_NoReverse", "BUG_ReplaceWatcher"):
            _, r = emit_cases(scratch, 90, CONFIGS["quick"][0] if tog == "BUG_ReplaceWatcher" else dict(CONFIGS["quick"][2], MaxOps=2), (tog,), emit=False)
            selftest[tog] = r.violated
            if not r.violated:
                raise C.Inconclusive("self-test: toggle %s no longer violates anything" % tog)
        results, crashes = run_cases(vh, scratch, all_cases)
        byid = {c["id"]: c for c in all_cases}
        violations, diverg = [], []
        # transforming *decoders*: the config types of Sources.tla (one field, every kind / tag style / alias pattern) decoded by
        # wrapped decoder instances that live for the whole worker process and so meet many config types
        from . import srccheck as S
        d = scratch.sub("c20src")
        S.write_model(d, S.ALL_KINDS, ["snake", "kebab"], ["struct", "pstruct"], 1, 1, True, False)
        sres = C.run_tlc(d, "MCSources", "S.cfg", timeout=1500)
        if not sres.ok:
            raise C.Inconclusive("Sources.tla violates its own properties: specification alarm\n" + sres.out[-1500:])
        scases = S.cases_of(sres.out)
        rng.shuffle(scases)
        for i, c in enumerate(scases):
            c.update(id="t%d" % i, seed=i, garbage="")
        sresults, scrashes = run_cases(vh, scratch, scases, workers=12, subcmd="sources")
        sby = {c["id"]: c for c in scases}
        dec_hits = 0
        for r in sresults:
            for m in r.get("mismatches") or []:
                if m.get("prop") == "C20":
                    dec_hits += 1
                    if len(violations) < 20:
                        prior = sby["t%d" % (int(r["id"][1:]) % 12)]        # the first config type the same worker's decoders met
                        rp = C.write_replay(pid, r["id"], {"property": pid, "kind": "sources", "cases": [prior, sby[r["id"]]], "mismatches": [m]})
                        violations.append(("config type %s [%s]: %s" % (r["id"], m.get("src"), m["detail"][:200]), rp))
        decoder_run = {"config_types": len(scases), "distinct_states": sres.distinct, "mismatches": dec_hits, "crashes": len(scrashes)}
        for cid, first, stderr in crashes:
            rp = C.write_replay(pid, cid, {"property": pid, "kind": "wrap", "case": byid.get(cid), "crash": stderr})
            violations.append(("process crashed while executing case %s: %s" % (cid, first), rp))
        for r in results:
            if len(violations) >= 30:
                break
            ms = r.get("mismatches") or []
            hard = [m for m in ms if m["kind"] in ("ref", "panic", "ctx")]
            if hard:
                rp = C.write_replay(pid, r["id"], {"property": pid, "kind": "wrap", "case": byid.get(r["id"]), "mismatches": ms})
                violations.append(("case %s step %d: %s" % (r["id"], hard[0]["step"], hard[0]["detail"][:160]), rp))
            elif ms:
                diverg.append({"id": r["id"], "mismatch": ms[0]})
        nontriv = len({json.dumps(c["hist"], sort_keys=True) for c in all_cases
                       if any(h["wrap"] != "none" for h in c["hist"]) and len(c["hist"]) >= 2})
        coverage = {
            "states": states, "transitions": trans, "traces_validated_against_impl": len(results),
            "samples": [all_cases[len(all_cases) // 2], all_cases[-1]],
            "evaluations": len(all_cases), "distinct_nontrivial": nontriv, "exhaustive": tier == "thorough",
            "transforming_decoders": decoder_run,
            "rule": "every operation sequence of Wrap.tla up to MaxOps (all inner-source kinds x mangler lists x values x primary/alias "
                    "spelling) is a case; non-trivial = at least two operations and at least one wrapped inner source; distinct by content",
            "model_runs": model_runs, "toggle_selftest": selftest, "divergences": diverg[:5], "divergence_count": len(diverg),
            "crashes": len(crashes),
            "checker_cmd": "tlc -config W.cfg Wrap.tla (CONSTRAINT Emit prints every history) ; vh wrap cases results",
        }
        C.write_evidence(pid, tier, "model_checking", coverage, time.time() - t0, len(violations),
                         ["operations on one Blank are atomic (it holds its mutex across SetSource)",
                          "the reference Dials is fed the model's slot value natively after each operation"])
        for dv in diverg[:3]:
            print("DIVERGENCE case=%s %s" % (dv["id"], json.dumps(dv["mismatch"])[:200]))
        return C.finish(pid, violations[:20])
    finally:
        scratch.cleanup()
