"""Normalise harness traces so that every record carries every field the TLA+ observer reads."""
import json

INT_FIELDS = ["seq", "step", "serial", "cfg", "cfgx", "cfgy", "old", "oldx", "oldy", "new", "newx", "newy", "src",
              "x", "y", "h", "tok", "n", "vserial", "leaked", "hung", "nsrc", "defx", "defy", "cbcap", "seed", "len", "cap"]
BOOL_FIELDS = ["ok", "blocking", "u", "tokvalid", "sent", "sup", "noop", "drained", "block", "nofunc", "skip", "delay",
               "suppress", "onnew", "onerr", "skipVerify", "procsdone"]
STR_FIELDS = ["sc", "g", "ev", "kind", "op", "res", "which", "err", "why", "mode"]


def normalise(e):
    out = {}
    for f in INT_FIELDS:
        v = e.get(f, -1 if f in ("cfg", "old", "new") else 0)
        out[f] = int(v) if not isinstance(v, bool) else int(v)
    for f in BOOL_FIELDS:
        out[f] = bool(e.get(f, False))
    for f in STR_FIELDS:
        v = e.get(f, "")
        out[f] = v if isinstance(v, str) else str(v)
    return out


def normalise_file(src, dst):
    n = 0
    with open(src) as f, open(dst, "w") as g:
        for line in f:
            line = line.strip()
            if not line:
                continue
            g.write(json.dumps(normalise(json.loads(line)), sort_keys=True) + "\n")
            n += 1
    return n
