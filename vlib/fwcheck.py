"""C17: watched files. TLC checks convergence on spec/FileWatch.tla for every interleaving of the environment's
syscalls with the watch loop (both layouts) and emits every environment-operation history; the Go driver executes
each history (with seeded pauses) on a real directory against a real WatchingSource and judges convergence, the
identical-replacement clause and release on cancel by the property's own statement."""
import json
import os
import random
import time

from . import common as C
from .wrapcheck import run_cases

TOGGLES = ("BUG_NoDirWatch", "BUG_NoCsumCheck", "BUG_NoDirWatchUpdate")


def write_cfg(d, layout, maxops, good, toggles=(), emit=True, liveness=False, sample=1):
    C.copy_specs(d, ["FileWatch.tla"])
    lines = ["SPECIFICATION Spec", "CONSTANTS", '  Layout = "%s"' % layout, "  MaxOps = %d" % maxops,
             "  Good = {%s}" % ", ".join('"%s"' % g for g in good), '  Bad = {"b1"}']
    for t in TOGGLES:
        lines.append("  %s = %s" % (t, "TRUE" if t in toggles else "FALSE"))
    lines.append("  RecheckAfterRearm = %s" % ("FALSE" if "NoRecheck" in toggles else "TRUE"))
    lines.append("  SampleN = %d" % sample)
    lines += ["INVARIANTS ConvergedOK ErrorReported", "PROPERTIES NoVersionForIdentical" + (" DrainsEventually" if liveness else ""),
              "CHECK_DEADLOCK FALSE"]
    if emit:
        lines.append("CONSTRAINT Emit")
    open(os.path.join(d, "F.cfg"), "w").write("\n".join(lines) + "\n")


def emit(scratch, tag, layout, maxops, good, toggles=(), do_emit=True, liveness=False, sample=1):
    d = scratch.sub(tag)
    write_cfg(d, layout, maxops, good, toggles, do_emit, liveness, sample)
    res = C.run_tlc(d, "FileWatch", "F.cfg", timeout=2400)
    cases = set()
    for line in res.out.splitlines():
        if line.startswith('<<"CASE"'):
            js = line[line.index(",") + 1:].strip()
            cases.add(json.loads(js[:js.rindex(">>")].strip()))
    return [json.loads(c) for c in sorted(cases)], res


def run_check(pid, tier, replay=None):
    t0 = time.time()
    scratch = C.Scratch(pid)
    try:
        vh = C.build_harness(scratch)
        if replay:
            obj = json.load(open(replay))
            bad = None
            for _ in range(10):
                res, crashes = run_cases(vh, scratch, [obj["case"]], workers=1, subcmd="fw")
                bad = crashes or [m for r in res for m in (r.get("mismatches") or []) if m["kind"] == "prop"]
                if bad:
                    break
            print("replay:", "reproduced" if bad else "not reproduced in 10 runs", (bad or [])[:1])
            if bad:
                print("VIOLATION property=%s replay=%s  (reproduced)" % (pid, replay))
            return 1 if bad else 0
        rng = random.Random(C.seed())
        quick = tier == "quick"
        # measured: direct/4 1.4M states, k8s/4 2.0M, k8s/5 63M (7 min); every history is emitted once per drained end state
        plan = [("direct", 3 if quick else 4, ["g0", "g1"], 1), ("k8s", 3 if quick else 4, ["g0", "g1"], 1)]
        if not quick:
            plan.append(("k8s", 5, ["g0", "g1"], 20))
        runs, cases, states, trans = [], [], 0, 0
        for i, (layout, mo, good, sample) in enumerate(plan):
            cs, res = emit(scratch, "fw%d" % i, layout, mo, good, sample=sample)
            if not res.ok:
                raise C.Inconclusive("FileWatch.tla violates its own properties (%s): specification alarm\n%s" % (res.violated, res.out[-1500:]))
            states += res.distinct
            trans += res.generated
            runs.append({"layout": layout, "max_ops": mo, "distinct_states": res.distinct, "histories": len(cs), "exhaustive": True})
            cap = 700 if quick else 2500
            if len(cs) > cap:
                cs = rng.sample(cs, cap)
                runs[-1]["histories_executed_sample"] = cap
            cases += cs
        # liveness on the small model: the loop always drains its events
        _, lres = emit(scratch, "fwl", "direct", 3, ["g0", "g1"], do_emit=False, liveness=True)
        if not lres.ok:
            raise C.Inconclusive("FileWatch.tla liveness failed: specification alarm\n" + lres.out[-1500:])
        selftest = {}
        for tog, layout in (("BUG_NoDirWatch", "direct"), ("BUG_NoCsumCheck", "direct"), ("BUG_NoDirWatchUpdate", "k8s")):
            _, r = emit(scratch, "fwt" + tog, layout, 3, ["g0", "g1"], (tog,), do_emit=False)
            selftest[tog] = r.violated
            if not r.violated:
                raise C.Inconclusive("self-test: toggle %s no longer violates anything" % tog)
        # every history twice: without pauses and with seeded pauses
        todo = []
        for i, c in enumerate(cases):
            # at most one operation is forced into the loop's read / re-arm window through the fw.read hook
            mids = [k for k, o in enumerate(c["ops"]) if o.get("mid") and k > 0 and not c["ops"][k - 1].get("mid")
                    and o["op"] in ("write", "writein", "trunc")]
            keep = mids[:1]
            a = {"id": "f%d-n" % i, "layout": c["layout"], "ops": [dict(o, pause=0, mid=(k in keep)) for k, o in enumerate(c["ops"])]}
            b = {"id": "f%d-p" % i, "layout": c["layout"],
                 "ops": [dict(o, pause=rng.choice([0, 150, 1500, 4000, -1] if quick else [0, 0, 150, 1500, -1]), mid=False) for o in c["ops"]]}
            todo += [a, b]
        # the read / re-arm window of the watch loop is narrow: histories that end in an in-place rewrite right after a swap
        # are repeated without pauses under parallel load (finding D14 showed up in about 4% of such runs)
        racy = [c for c in cases if c["layout"] == "k8s" and len(c["ops"]) >= 2 and c["ops"][-1]["op"] == "writein"
                and c["ops"][-2]["op"] == "swap" and c["ops"][-1]["c"] in ("g1", "g0") and c["ops"][-1]["c"] != c["ops"][-2]["c"]]
        rng.shuffle(racy)
        reps = 600 if quick else 6000
        for k in range(reps):
            c = racy[k % len(racy)] if racy else None
            if c:
                todo.append({"id": "f-race-%d" % k, "layout": "k8s", "ops": [dict(o, pause=0, mid=False) for o in c["ops"]]})
        # direct layout, after an atomic replacement (the watch on the old inode is dead, only the directory watch reports
        # writes: one event per rewrite): a rewrite, and a second one landing between the loop's read and its report
        for k in range(80 if quick else 600):
            a, b = ("g0", "g1") if k % 2 else ("g1", "g0")
            todo.append({"id": "f-rw-%d-n" % k, "layout": "direct",
                         "ops": [{"op": "tmp", "c": b, "pause": 0, "mid": False}, {"op": "rename", "c": b, "pause": rng.choice([0, 150]), "mid": False},
                                 {"op": "write", "c": a, "pause": 0, "mid": False}, {"op": "write", "c": b, "pause": 0, "mid": True}]})
        # an in-place rewrite racing with the watcher's own read: after an atomic replacement with content b the file is
        # truncated at the moment the watcher hands the opened file to the decoder, then completed with the same bytes b
        # (whatever was looked at before decoding must not count as delivered)
        for k in range(40 if quick else 400):
            a, b = ("g0", "g1") if k % 2 else ("g2", "g0")
            first = [{"op": "write", "c": a, "pause": -1, "mid": False}] if a != "g0" else []
            todo.append({"id": "f-dec-%d" % k, "layout": "direct",
                         "ops": first + [{"op": "tmp", "c": b, "pause": 0, "mid": False}, {"op": "rename", "c": b, "pause": 0, "mid": False},
                                         {"op": "trunc", "c": "empty", "pause": 0, "mid": False, "indec": True},
                                         {"op": "write", "c": b, "pause": rng.choice([0, 0, 200]), "mid": False}]})
        for k in range(1 if quick else 4):
            todo.append({"id": "f-overflow-%d" % k, "layout": "overflow", "ops": []})
        results, crashes = run_cases(vh, scratch, todo, workers=8 if quick else 16, subcmd="fw")
        byid = {c["id"]: c for c in todo}
        violations, lat = [], []
        for cid, first, stderr in crashes:
            rp = C.write_replay(pid, cid, {"property": pid, "kind": "fw", "case": byid.get(cid), "crash": stderr})
            violations.append(("process crashed while executing history %s: %s" % (cid, first), rp))
        harness_trouble = 0
        for r in results:
            if len(violations) >= 30:
                break
            ms = r.get("mismatches") or []
            hard = [m for m in ms if m["kind"] == "prop"]
            harness_trouble += sum(1 for m in ms if m["kind"] == "harness")
            if hard:
                rp = C.write_replay(pid, r["id"], {"property": pid, "kind": "fw", "case": byid.get(r["id"]), "mismatches": ms})
                violations.append(("history %s: %s" % (r["id"], hard[0]["detail"][:200]), rp))
            if r.get("info", {}).get("converge_us") is not None:
                lat.append(r["info"]["converge_us"])
        if harness_trouble > max(20, len(todo) // 20):
            raise C.Inconclusive("%d of %d histories could not be executed as planned" % (harness_trouble, len(todo)))
        lat.sort()
        nontriv = sum(1 for c in cases if len({o["op"] for o in c["ops"]}) >= 2)
        coverage = {
            "states": states, "transitions": trans, "traces_validated_against_impl": len(results),
            "samples": [todo[len(todo) // 2], todo[-1]],
            "evaluations": len(todo), "distinct_nontrivial": nontriv,
            "rule": "every environment-operation history of FileWatch.tla up to MaxOps (syscall level for the direct layout; swap / "
                    "in-place rewrite for the Kubernetes layout), each executed without pauses and with seeded pauses; non-trivial = "
                    "at least two different kinds of operation; distinct by content",
            "model_runs": runs, "toggle_selftest": selftest,
            "convergence_latency_us": {"p50": lat[len(lat) // 2] if lat else None, "p99": lat[int(len(lat) * 0.99)] if lat else None,
                                        "max": lat[-1] if lat else None, "deadline": 5000000},
            "crashes": len(crashes), "histories_not_executable_as_planned": harness_trouble,
            "checker_cmd": "tlc FileWatch (exhaustive, both layouts, + liveness on the small model) ; vh fw cases results",
        }
        C.write_evidence(pid, tier, "model_checking", coverage, time.time() - t0, len(violations),
                         ["changes start after Config returned", "fsnotify/inotify behave as recorded in DESIGN.md 4.4 (the model's "
                          "environment); the verdict on the real code does not depend on it: it is View() == decode(final bytes) within 20 s"])
        return C.finish(pid, violations[:20])
    finally:
        scratch.cleanup()
