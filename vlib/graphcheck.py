"""C03: cyclic and shared reference graphs. TLC enumerates every object graph of spec/DeepCopy.tla in the bound,
checks termination / isomorphism / preserved sharing of the copier model, and emits each graph; the Go driver builds
it over recursive Go types and copies it with the real deep copier and through Config + View."""
import json
import os
import random
import re
import time

from . import common as C
from .wrapcheck import run_cases

ALL_SLOTS = ["p", "s1", "s2", "a", "m", "mi", "mm", "i"]


def write_cfg(d, n, m, mi, slots, sample, toggles=(), emit=True, fuel=60, mm=0, boxes=False):
    C.copy_specs(d, ["DeepCopy.tla"])
    lines = ["SPECIFICATION Spec", "CONSTANTS", "  N = %d" % n, "  M = %d" % m, "  MI = %d" % mi, "  MM = %d" % mm, "  Boxes = %s" % ("TRUE" if boxes else "FALSE"),
             "  Slots = {%s}" % ", ".join('"%s"' % s for s in slots), "  Fuel = %d" % fuel, "  SampleN = %d" % sample]
    for t in ("BUG_IfaceNoMemo", "BUG_MapMemoLate"):
        lines.append("  %s = %s" % (t, "TRUE" if t in toggles else "FALSE"))
    lines += ["INVARIANTS Terminates SharingPreserved Isomorphic", "CHECK_DEADLOCK FALSE"]
    if emit:
        lines.append("CONSTRAINT Emit")
    open(os.path.join(d, "D.cfg"), "w").write("\n".join(lines) + "\n")


def emit(scratch, tag, n, m, mi, slots, sample, seed, toggles=(), do_emit=True, fuel=60, mm=0, boxes=False):
    d = scratch.sub(tag)
    write_cfg(d, n, m, mi, slots, sample, toggles, do_emit, fuel, mm, boxes)
    res = C.run_tlc(d, "DeepCopy", "D.cfg", timeout=3000, extra=["-seed", str(seed)])
    seen = set()
    for line in res.out.splitlines():
        if line.startswith('<<"CASE"'):
            js = line[line.index(",") + 1:].strip()
            seen.add(json.loads(js[:js.rindex(">>")].strip()))
    return [json.loads(c) for c in sorted(seen)], res


def nontrivial(c):
    """cyclic or shared: some object is referenced from two places, or a node reaches itself."""
    refs = {}
    for n in c["nodes"]:
        for r in n.values():
            if r["t"] != "nil":
                refs[(r["t"], r["v"])] = refs.get((r["t"], r["v"]), 0) + 1
    for r in [x for mp in c["maps"] for x in mp.values()] + c["imaps"] + [x for mp in c.get("mmaps", []) for x in mp.values()]:
        if r["t"] != "nil":
            refs[(r["t"], r["v"])] = refs.get((r["t"], r["v"]), 0) + 1
    return any(v >= 2 for v in refs.values()) or ("node", 1) in refs


def run_check(pid, tier, replay=None):
    t0 = time.time()
    scratch = C.Scratch(pid)
    try:
        vh = C.build_harness(scratch)
        if replay:
            obj = json.load(open(replay))
            res, crashes = run_cases(vh, scratch, [obj["case"]], workers=1, subcmd="graph")
            bad = crashes or [m for r in res for m in (r.get("mismatches") or [])]
            print("replay:", "reproduced" if bad else "not reproduced", (bad or [])[:1])
            if bad:
                print("VIOLATION property=%s replay=%s  (reproduced)" % (pid, replay))
            return 1 if bad else 0
        seed = C.seed()
        rng = random.Random(seed)
        quick = tier == "quick"
        if quick:
            sl = ["i", "mi"] + rng.sample(["p", "s1", "a", "m"], 2)
            plan = [(2, 1, 1, sl, 4), (3, 0, 1, ["p", "i"], 1), (3, 1, 0, ["s1", "m"], 1), (1, 1, 1, ALL_SLOTS, 1, 1),
                    (1, 2, 0, ["m", "mm"], 1, 1), (2, 1, 0, ["p", "mm"], 1, 2),
                    (2, 0, 0, ["p", "i"], 1, 0, True), (2, 0, 1, ["s1", "mi", "i"], 2, 0, True)]
        else:
            # every graph is copied four times (copier, Config defaults, source value, re-stack): the larger universes are
            # sampled (measured: ~1.06M graphs emitted in total)
            plan = [(2, 1, 1, ["p", "s1", "m", "mi", "i"], 5), (2, 1, 1, ["s2", "a", "m", "mi", "i"], 5), (3, 0, 1, ["p", "i"], 1),
                    (3, 1, 0, ["s1", "m"], 1), (3, 1, 1, ["p", "m", "i"], 80), (1, 1, 1, ALL_SLOTS, 1, 1),
                    (1, 2, 0, ["m", "mm"], 1, 1), (2, 2, 0, ["p", "mm"], 5, 2), (2, 2, 0, ["m", "mm", "i"], 8, 1),
                    (2, 0, 0, ["p", "i"], 1, 0, True), (2, 0, 1, ["s1", "mi", "i"], 1, 0, True), (3, 0, 0, ["p", "i"], 1, 0, True),
                    (2, 1, 1, ["p", "m", "mi", "i"], 20, 0, True)]
        runs, cases, states, trans = [], [], 0, 0
        for i, row in enumerate(plan):
            n, m, mi, slots, sample = row[:5]
            mm = row[5] if len(row) > 5 else 0
            boxes = row[6] if len(row) > 6 else False
            cs, res = emit(scratch, "dc%d" % i, n, m, mi, slots, sample, seed, mm=mm, boxes=boxes)
            if not res.ok:
                raise C.Inconclusive("DeepCopy.tla violates its own properties (%s): specification alarm\n%s" % (res.violated, res.out[-1500:]))
            states += res.distinct
            trans += res.generated
            runs.append({"nodes": n, "maps": m, "imaps": mi, "mmaps": mm, "boxes": boxes, "slots": slots, "graphs": res.distinct, "emitted_one_in": sample, "cases": len(cs)})
            cases += cs
        selftest = {}
        for tog in ("BUG_IfaceNoMemo", "BUG_MapMemoLate"):
            _, r = emit(scratch, "dct" + tog, 2, 1, 1, ["p", "m", "i"], 1, seed, (tog,), do_emit=False, fuel=14)
            selftest[tog] = r.violated
            if not r.violated:
                raise C.Inconclusive("self-test: toggle %s no longer violates anything" % tog)
        for i, c in enumerate(cases):
            c["id"] = "g%d" % i
        # two fixed shapes outside the enumerated node family (see DESIGN 0.4: D3, D4); placed last in one worker's share
        probes = [{"id": "probe-selfptr", "probe": "selfptr", "nodes": [], "maps": [], "imaps": []},
                  {"id": "probe-interior", "probe": "interior", "nodes": [], "maps": [], "imaps": []}]
        results, crashes = run_cases(vh, scratch, cases, workers=12, subcmd="graph")
        for pr in probes:
            r2, c2 = run_cases(vh, scratch, [pr], workers=1, subcmd="graph")
            results += r2
            crashes += c2
        byid = {c["id"]: c for c in cases + probes}
        known = C.load_known()["findings"]
        known_hits = set()

        def is_known(cid, text):
            for k in known:
                if k["property"] == pid and k.get("case_id") == cid and re.search(k["match"], text):
                    known_hits.add(k["what"])
                    return True
            return False
        violations = []
        for cid, first, stderr in crashes:
            if is_known(cid, first + stderr):
                continue
            rp = C.write_replay(pid, cid, {"property": pid, "kind": "graph", "case": byid.get(cid), "crash": stderr[-1500:]})
            violations.append(("copying graph %s killed the process: %s" % (cid, first), rp))
        for r in results:
            if len(violations) >= 30:
                break
            ms = r.get("mismatches") or []
            if ms and is_known(r["id"], ms[0]["detail"]):
                continue
            if ms:
                rp = C.write_replay(pid, r["id"], {"property": pid, "kind": "graph", "case": byid.get(r["id"]), "mismatches": ms})
                violations.append(("graph %s: %s" % (r["id"], ms[0]["detail"][:200]), rp))
        coverage = {
            "states": states, "transitions": trans, "traces_validated_against_impl": len(results),
            "samples": [cases[len(cases) // 2], cases[-1]],
            "evaluations": len(cases), "distinct_nontrivial": sum(1 for c in cases if nontrivial(c)), "exhaustive": False,
            "rule": "every object graph over the node family (pointer field, slice / array elements, pointer-valued map, interface-valued "
                    "map, interface field) within the stated numbers of nodes / maps and slot sets; non-trivial = some object referenced "
                    "twice or a cycle through the root; each copied by the deep copier directly and through Config + View",
            "model_runs": runs, "toggle_selftest": selftest, "crashes": len(crashes),
            "checker_cmd": "tlc DeepCopy (one initial state per graph; CONSTRAINT Emit) ; vh graph cases results",
        }
        C.write_evidence(pid, tier, "model_checking", coverage, time.time() - t0, len(violations),
                         ["types that point to themselves through a plain pointer field cannot be passed to Config (finding D3); the "
                          "through-Config run reaches the graph through a slice",
                          "interior pointers into by-value fields are outside the node family (finding D4)"])
        return C.finish(pid, violations[:25], sorted(known_hits))
    finally:
        scratch.cleanup()
