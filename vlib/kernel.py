"""Kernel checks (C04-C09): TLC model checking of Dials.tla, TLC-generated and random schedules replayed
into the real monitor/callback goroutines through the gate scheduler, free-running stress, and the TLA+
observer (DialsObs.tla) evaluated by TLC over every recorded history."""
import json
import os
import random
import subprocess
import time
from concurrent.futures import ThreadPoolExecutor

from . import common as C
from .trace import normalise

# property id -> observer tag prefixes that decide it
TAGS = {
    # (C09_EnabledInvalid / C09_EnableWrongCfg: verification switched on while the current version does not verify / is not the
    # one Verify was shown - it is then observable while verification is active without having passed Verify)
    "C04": ("C04_", "C07_NilNotInstalled", "C07_ErrMismatch", "C02_", "C09_EnabledInvalid", "C09_EnableWrongCfg"),
    "C05": ("C05_", "C02_"),
    # a ViewVersion token that does not identify the config it came with makes a registration skip a version (no catch-up, the
    # ordinary event filtered out): the pair check of the observer also decides C06
    "C06": ("C06_", "C05_PairMismatch"),
    "C07": ("C07_", "C08_Hang", "C08_Anomaly"),
    "C08": ("C08_",),
    "C09": ("C09_",),
}


def val(rng, src, family):
    """An abstract value reported by source src."""
    base = 10 * src
    r = rng.random()
    pbad = {"C04": 0.3, "C09": 0.3, "C07": 0.2}.get(family, 0.1)
    pun = {"C04": 0.15, "C07": 0.1, "C08": 0.1}.get(family, 0.03)
    if r < pun:
        return {"x": 0, "y": 0, "u": True}
    x = rng.choice([0, base + 1, base + 2, base + 3])
    y = rng.choice([0, 0, base + 4, base + 5])
    if rng.random() < pbad:
        if rng.random() < 0.5:
            x = base + 9
        else:
            y = base + 9
    if x == 0 and y == 0 and rng.random() < 0.7:
        x = base + 1
    return {"x": x, "y": y, "u": False}


def overflow_scenario(rng, family, idx, mode):
    """A callback that never returns, a callback queue of one slot, more installs than fit, then an error report and one more
    blocking report: the queue overflows (documented: events are dropped), the monitor must keep installing and answering."""
    vals = [{"x": 11 + i % 3, "y": 14 + i % 2, "u": False} for i in range(6)]
    r1 = [{"op": "val", "v": v} for v in vals[:rng.randint(3, 5)]] + [{"op": "err"}, {"op": "block", "v": vals[5]}]
    if rng.random() < 0.5:
        r1.append({"op": rng.choice(["err", "val"]), "v": vals[0]})
    return {"id": "%s-%s-o%d" % (family, mode[0], idx), "mode": mode, "seed": rng.randrange(1 << 30), "onnew": rng.random() < 0.5,
            "onerr": rng.random() < 0.5, "cbcap": 1, "def": {"x": 1, "y": 2}, "skip": False, "delay": False, "suppress": False,
            "oracle": True, "maxsteps": 600, "pcancel": 0.0, "cancelok": [], "init": [{"x": 11, "y": 0, "u": False}],
            "procs": {"r1": r1, "c1": [{"op": "reg", "tok": "last", "block": True}, {"op": "view"}, {"op": "view"}]}}


def done_scenario(rng, family, idx, mode):
    """Rejected and accepted updates, then the only watcher is done: the monitor exits while the callback goroutine may still
    have their events queued (the queue is large enough): each of them must still be delivered."""
    ops = []
    for i in range(rng.randint(2, 4)):
        bad = rng.random() < 0.6
        ops.append({"op": rng.choice(["val", "block"]), "v": {"x": 19 if bad else 11 + i, "y": 0, "u": False}})
    ops.append({"op": "done"})
    return {"id": "%s-%s-d%d" % (family, mode[0], idx), "mode": mode, "seed": rng.randrange(1 << 30), "onnew": True, "onerr": True,
            "cbcap": 8, "def": {"x": 1, "y": 2}, "skip": False, "delay": False, "suppress": False, "oracle": True, "maxsteps": 600,
            "pcancel": 0.0, "cancelok": [], "init": [{"x": 11, "y": 0, "u": False}],
            "procs": {"r1": ops, "c1": [{"op": "view"}]}, "starve": ["cb"] if rng.random() < 0.7 else []}


def enable_after_exit_scenario(rng, family, idx, mode):
    """Delayed verification, the only watcher is done at once (the monitor exits), then more EnableVerification calls from
    separate goroutines than the control channel has slots: each must come back by the end of its own context."""
    procs = {"r1": [{"op": "done"}]}
    for c in range(1, rng.randint(5, 6) + 1):
        procs["c%d" % c] = [{"op": "enable"}, {"op": "enable"}, {"op": "view"}]
    return {"id": "%s-%s-x%d" % (family, mode[0], idx), "mode": mode, "seed": rng.randrange(1 << 30), "onnew": True, "onerr": True,
            "cbcap": 4, "def": {"x": 1, "y": 2}, "skip": False, "delay": True, "suppress": rng.random() < 0.5, "oracle": mode != "free",
            "maxsteps": 600, "pcancel": 0.0, "cancelok": [], "init": [{"x": 11, "y": 0, "u": False}], "procs": procs,
            # the callers only move once reporter and monitor have nothing left to do: the monitor is gone by then
            "starve": [p for p in procs if p.startswith("c")] if rng.random() < 0.8 else []}


def gen_scenario(rng, family, idx, mode):
    nsrc = rng.choice([1, 2, 2]) if family != "C06" else rng.choice([1, 1, 2])
    sc = {"id": "%s-%s-%d" % (family, mode[0], idx), "mode": mode, "seed": rng.randrange(1 << 30),
          "onnew": rng.random() < 0.8, "onerr": rng.random() < 0.85, "cbcap": rng.choice([1, 2, 2, 3]),
          "def": {"x": rng.choice([0, 1]), "y": rng.choice([0, 2])},
          "skip": False, "delay": False, "suppress": False, "oracle": True, "maxsteps": 400,
          "pcancel": 0.0, "cancelok": []}
    if family in ("C04", "C09", "C08", "C07"):
        # (SkipInitialVerification skips the first Verify only: later reports must still be verified and rejections answered)
        sc["skip"] = rng.random() < 0.25
    if family == "C07" and rng.random() < 0.25:
        # blocking reports while verification is delayed (with and without the suppress option): rejections must still be answered
        sc["delay"] = True
        sc["suppress"] = rng.random() < 0.6
    if family == "C09" or (family in ("C04", "C08") and rng.random() < (0.45 if family == "C04" else 0.3)):
        sc["delay"] = rng.random() < (0.8 if family == "C09" else 0.6)
        sc["suppress"] = rng.random() < 0.5
    if family == "C06":
        sc["cbcap"] = rng.choice([1, 2, 2, 3, 64])
    if family == "C09" and rng.random() < 0.15:
        # no watching source at all: EnableVerification has no monitor to talk to
        sc["delay"] = True
        sc["def"] = {"x": rng.choice([1, 9, 19]), "y": rng.choice([0, 2, 9])}
        sc["init"] = []
        sc["procs"] = {"c1": [{"op": rng.choice(["enable", "enable", "view"])} for _ in range(rng.randint(1, 4))]}
        return sc
    # initial values must let Config succeed unless the family wants failing starts
    init = []
    for s in range(1, nsrc + 1):
        v = val(rng, s, "init")
        v["u"] = False
        if not (sc["skip"] or sc["delay"]) or rng.random() < 0.6:
            if v["x"] % 10 == 9:
                v["x"] = 10 * s + 1
            if v["y"] % 10 == 9:
                v["y"] = 0
        init.append(v)
    if family in ("C04", "C09") and not (sc["skip"] or sc["delay"]) and rng.random() < 0.12:
        # a failing start: the initial stack does not verify (or does not stack), Config itself must fail
        bad = rng.choice(init)
        if rng.random() < 0.8:
            bad[rng.choice(["x", "y"])] = 10 * (init.index(bad) + 1) + 9
        else:
            bad["u"] = True
    sc["init"] = init
    procs = {}
    nrep = {"C04": (2, 4), "C05": (2, 5), "C06": (2, 4), "C07": (2, 4), "C08": (1, 4), "C09": (1, 4)}[family]
    for s in range(1, nsrc + 1):
        ops = []
        for _ in range(rng.randint(*nrep)):
            r = rng.random()
            if family == "C07":
                kind = "block" if r < 0.7 else "val"
            elif family == "C09":
                kind = "err" if r < 0.3 else ("block" if r < 0.65 else "val")
            elif family == "C08":
                kind = "err" if r < 0.15 else ("block" if r < 0.5 else "val")
            else:
                kind = "err" if r < 0.08 else ("block" if r < 0.5 else "val")
            op = {"op": kind}
            if kind in ("val", "block"):
                op["v"] = val(rng, s, family)
            ops.append(op)
        if family == "C08" and rng.random() < 0.6 or family != "C08" and rng.random() < 0.15:
            ops.append({"op": "done"})
            if family == "C08" and rng.random() < 0.5:
                ops.append({"op": rng.choice(["val", "block", "err"]), "v": val(rng, s, family)})
        procs["r%d" % s] = ops
    ncli = {"C04": 1, "C05": 2, "C06": rng.choice([1, 2, 2]), "C07": 1, "C08": rng.choice([1, 2]), "C09": 1}[family]
    for c in range(1, ncli + 1):
        ops = []
        regs = []
        n = {"C04": (1, 3), "C05": (3, 6), "C06": (3, 7), "C07": (1, 2), "C08": (2, 6), "C09": (2, 5)}[family]
        for i in range(rng.randint(*n)):
            r = rng.random()
            if family == "C05":
                k = "view" if r < 0.8 else "reg"
            elif family == "C06":
                k = "view" if r < 0.35 else ("reg" if r < 0.7 else "unreg")
            elif family == "C09":
                k = "enable" if r < 0.55 else ("view" if r < 0.8 else "reg")
            elif family == "C08":
                k = "view" if r < 0.2 else ("reg" if r < 0.5 else ("unreg" if r < 0.8 else "enable"))
            elif family == "C04" and sc["delay"]:
                # the switch into verifying mode races with value reports: whatever is current when it succeeds must have verified
                k = "enable" if r < 0.45 else ("view" if r < 0.8 else "reg")
            else:
                k = "view" if r < 0.6 else "reg"
            if k == "unreg" and not regs:
                k = "reg"
            if k == "reg":
                h = 10 * c + len(ops) + 1
                op = {"op": "reg", "tok": rng.choice(["last", "last", "zero"])}
                if family in ("C06", "C08") and rng.random() < 0.12:
                    op["block"] = True
                regs.append(h)
                ops.append(op)
            elif k == "unreg":
                ops.append({"op": "unreg", "h": rng.choice(regs)})
            else:
                ops.append({"op": k})
        procs["c%d" % c] = ops
    if rng.random() < (0.7 if family in ("C04", "C05") else 0.3):
        procs["e1"] = [{"op": "events"} for _ in range(rng.randint(1, 4))]
    sc["procs"] = procs
    if family == "C07":
        sc["pcancel"], sc["cancelok"] = 0.08, ["rep"]
    elif family == "C08":
        sc["pcancel"], sc["cancelok"] = 0.06, ["rep", "cli", "ctx"]
    elif family == "C09" and rng.random() < 0.5:
        sc["pcancel"], sc["cancelok"] = 0.12, ["cli"]
    return sc


def stress_scenario(rng, idx):
    """Free-running: one reporter installing versions back to back, several readers spinning on ViewVersion."""
    ops = []
    for i in range(rng.randint(60, 120)):
        ops.append({"op": "val", "v": {"x": 11 + (i % 3), "y": 14 + (i % 2), "u": False}})
    procs = {"r1": ops}
    for c in range(1, rng.randint(5, 8)):
        procs["c%d" % c] = [{"op": "spin", "ms": rng.randint(40, 90)}]
    return {"id": "C05-s-%d" % idx, "mode": "free", "seed": rng.randrange(1 << 30), "onnew": False, "onerr": False, "cbcap": 64,
            "def": {"x": 1, "y": 2}, "skip": False, "delay": False, "suppress": False, "oracle": False, "maxsteps": 400,
            "pcancel": 0.0, "cancelok": [], "init": [{"x": 11, "y": 0, "u": False}], "procs": procs}


def run_chunk(vh, scratch, name, scenarios):
    """Run scenarios in one worker process; a crash is attributed to the scenario in flight and the rest resumes."""
    traces, crashes = [], []
    todo = list(scenarios)
    part = 0
    while todo:
        part += 1
        sf = scratch.path("%s.%d.scen" % (name, part))
        tf = scratch.path("%s.%d.trace" % (name, part))
        with open(sf, "w") as f:
            for sc in todo:
                f.write(json.dumps(sc) + "\n")
        try:
            p = subprocess.run([vh, "kernel", sf, tf], capture_output=True, text=True, timeout=900)
        except subprocess.TimeoutExpired:
            raise C.Inconclusive("harness worker timed out on " + sf)
        evs = []
        if os.path.exists(tf):
            for line in open(tf):
                line = line.strip()
                if line:
                    try:
                        evs.append(json.loads(line))
                    except ValueError:
                        pass  # torn last line of a crashed worker
        traces.extend(evs)
        if p.returncode == 0:
            break
        # crashed: find the scenario in flight
        begun = [e["sc"] for e in evs if e.get("ev") == "begin"]
        finished = {e["sc"] for e in evs if e.get("ev") == "final"}
        inflight = [s for s in begun if s not in finished]
        if not inflight:
            raise C.Inconclusive("harness worker failed outside a scenario: rc=%d\n%s" % (p.returncode, p.stderr[-2000:]))
        cur = inflight[-1]
        crashes.append((cur, p.stderr[-3000:]))
        ids = [s["id"] for s in todo]
        todo = todo[ids.index(cur) + 1:]
    return traces, crashes


def run_scenarios(vh, scratch, scenarios, workers=8):
    chunks = [scenarios[i::workers] for i in range(workers)]
    chunks = [c for c in chunks if c]
    traces, crashes = [], []
    with ThreadPoolExecutor(max_workers=workers) as ex:
        futs = [ex.submit(run_chunk, vh, scratch, "w%d" % i, c) for i, c in enumerate(chunks)]
        for f in futs:
            t, cr = f.result()
            traces.extend(t)
            crashes.extend(cr)
    return traces, crashes


def observe(scratch, events, tag="obs"):
    """Evaluate DialsObs.tla over the events with TLC; returns the list of breaches."""
    d = scratch.sub(tag)
    C.copy_specs(d, ["DialsObs.tla", "KernelData.tla", "DialsObs.cfg"])
    with open(os.path.join(d, "trace.ndjson"), "w") as f:
        for e in events:
            f.write(json.dumps(normalise(e), sort_keys=True) + "\n")
    res = C.run_tlc(d, "DialsObs", "DialsObs.cfg", workers=1, timeout=1500, java_opts="-Xss64m")
    lines = res.printed("OBSERVER")
    if not lines or not res.ok:
        raise C.Inconclusive("observer did not complete:\n" + res.out[-3000:])
    # <<"OBSERVER", n, "json">>
    line = lines[-1]
    js = line[line.index(',', line.index(',') + 1) + 1:].strip()
    js = js[:js.rindex(">>")].strip()
    viol = json.loads(json.loads(js))
    n = int(line.split(",")[1])
    if n != len(events):
        raise C.Inconclusive("observer consumed %d of %d events" % (n, len(events)))
    return viol, res


def binding_selftest(scratch, scenarios, by):
    """The code -> spec direction must not be vacuous: a recorded trace with one field corrupted (the serial of an install) must
    be flagged by the observer and rejected by DialsTrace, and a trace with one hook's events removed must be rejected too."""
    from . import conform
    for s in scenarios:
        evs = by.get(s["id"]) or []
        if s["mode"] != "plan" or not s.get("init") or not any(e.get("ev") == "mon.store" for e in evs):
            continue
        if conform.validate_one(scratch, 9000, s, evs).get("status") != "accepted":
            continue
        bad1 = [dict(e, serial=e["serial"] + 1) if e.get("ev") == "mon.store" else e for e in evs]
        bad2 = [e for e in evs if e.get("ev") != "mon.verified"]
        v1, _ = observe(scratch, bad1, "selfobs")
        r1 = conform.validate_one(scratch, 9001, s, bad1).get("status")
        r2 = conform.validate_one(scratch, 9002, s, bad2).get("status")
        out = {"scenario": s["id"], "corrupted_serial_flagged_by_observer": sorted({v["p"] for v in v1}),
               "corrupted_serial_conformance": r1, "removed_hook_conformance": r2}
        if not v1 or r1 == "accepted" or r2 == "accepted":
            raise C.Inconclusive("binding self-test failed (the trace check is vacuous): %s" % out)
        return out
    return None


def scenario_of(events, sc):
    for e in events:
        if e.get("sc") == sc and e.get("ev") == "begin":
            return e.get("scenario")
    return None


def replay_obj(pid, sc, events, breaches, note=""):
    evs = [e for e in events if e.get("sc") == sc]
    scen = scenario_of(events, sc) or {}
    moves = [e["item"] for e in evs if e.get("ev") == "move"]
    rs = dict(scen)
    if scen.get("mode") != "free":
        rs["mode"], rs["schedule"] = "plan", moves
    return {"property": pid, "kind": "kernel", "scenario": rs, "original_mode": scen.get("mode"),
            "breaches": breaches, "note": note,
            "trace": [{k: v for k, v in e.items() if k != "scenario"} for e in evs]}


def counts(events):
    """Measured coverage facts about the executed histories (for the evidence file)."""
    c = {"scenarios": 0, "installs": 0, "rejects": 0, "drops": 0, "catchups": 0, "cb_calls": 0, "cancels": 0,
         "late_calls": 0, "enables": 0, "blocking_rets": 0, "views": 0, "free": 0, "gated": 0}
    during = {}
    for e in events:
        ev = e.get("ev")
        if ev == "begin":
            c["scenarios"] += 1
            c["free" if e.get("mode") == "free" else "gated"] += 1
        elif ev == "mon.store":
            c["installs"] += 1
        elif ev == "mon.rejected":
            c["rejects"] += 1
        elif ev == "mon.submit" and e.get("res") != "sent":
            c["drops"] += 1
        elif ev == "cb.recv":
            during[e["sc"]] = e.get("kind")
        elif ev == "cbenter":
            c["cb_calls"] += 1
            if during.get(e["sc"]) == "reg":
                c["catchups"] += 1
        elif ev == "cancel":
            c["cancels"] += 1
        elif ev == "mon.enable":
            c["enables"] += 1
        elif ev == "ret" and e.get("op") == "block":
            c["blocking_rets"] += 1
        elif ev == "view":
            c["views"] += 1
    return c


def nontrivial(events, pid):
    """Distinct scenarios that actually exercised the property's subject matter."""
    per = {}
    for e in events:
        s = per.setdefault(e.get("sc"), {"store": 0, "rej": 0, "cb": 0, "reg": 0, "cancel": 0, "blockret": 0, "enable": 0,
                                         "exit": 0, "view": 0, "sig": []})
        ev = e.get("ev")
        if ev == "mon.store":
            s["store"] += 1
        elif ev == "mon.rejected":
            s["rej"] += 1
        elif ev == "cbenter":
            s["cb"] += 1
        elif ev == "cb.recv" and e.get("kind") == "reg":
            s["reg"] += 1
        elif ev == "cancel":
            s["cancel"] += 1
        elif ev == "ret" and e.get("op") == "block":
            s["blockret"] += 1
        elif ev == "mon.enable":
            s["enable"] += 1
        elif ev == "mon.exited":
            s["exit"] += 1
        elif ev == "view":
            s["view"] += 1
        if ev == "move":
            s["sig"].append(e.get("item"))
    rule = {
        "C04": lambda s: s["rej"] >= 1 and s["store"] >= 1,
        "C05": lambda s: s["store"] >= 2 and s["view"] >= 1,
        "C06": lambda s: s["reg"] >= 1 and s["store"] >= 1 and s["cb"] >= 1,
        "C07": lambda s: s["blockret"] >= 1,
        "C08": lambda s: s["exit"] >= 1 or s["cancel"] >= 1,
        "C09": lambda s: s["enable"] >= 1,
    }[pid]
    sigs = set()
    for sc, s in per.items():
        if sc and rule(s):
            sigs.add((sc, tuple(s["sig"])))
    return len(sigs)


RULE_TEXT = {
    "C04": "a scenario counts when at least one update was rejected and at least one installed",
    "C05": "a scenario counts when at least two versions were installed and a reader sampled the view",
    "C06": "a scenario counts when a registration was processed, a version installed and a callback invoked",
    "C07": "a scenario counts when at least one blocking report returned",
    "C08": "a scenario counts when the monitor exited or a context was cancelled before teardown",
    "C09": "a scenario counts when the monitor handled at least one EnableVerification request",
}


SELFTEST = {
    "C04": ["BUG_StoreBeforeVerify"], "C05": ["BUG_SerialPlus2", "BUG_NoSlotUpdate"], "C06": ["BUG_FilterGT", "BUG_CatchupLE"],
    "C07": ["BUG_ReplyBeforeStore"], "C08": ["BUG_CloseCbq"], "C09": ["BUG_SrcErrSuppress"],
}


def run_check(pid, tier, replay=None):
    from . import mc, conform
    t0 = time.time()
    scratch = C.Scratch(pid)
    try:
        vh = C.build_harness(scratch)
        if replay:
            return run_replay(pid, vh, scratch, replay)
        seed = C.seed()
        rng = random.Random(seed * 7919 + int(pid[1:]))
        quick = tier == "quick"
        # 1. the specification: exhaustive model checking of the family's bounded configuration
        mcres = mc.model_check(scratch, pid, tier, timeout=2400)
        if not mcres.ok:
            raise C.Inconclusive("Dials.tla does not satisfy its own properties in the %s/%s configuration (%s): specification alarm, "
                                 "not a verdict about the code\n%s" % (pid, tier, mcres.violated, mcres.out[-1500:]))
        mc_also = None
        if not quick:
            # the thorough tier also checks the quick configuration (it differs in shape, e.g. two sources with one operation each)
            r2 = mc.model_check(scratch, pid, "quick", timeout=1200, tag="mcq")
            if not r2.ok:
                raise C.Inconclusive("Dials.tla does not satisfy its own properties in the %s/quick configuration (%s): specification alarm" % (pid, r2.violated))
            mc_also = {"config": mc.consts_for(pid, "quick"), "distinct_states": r2.distinct, "generated_states": r2.generated}
        selftest = {}
        if not quick:
            for tog in SELFTEST[pid]:
                fam = "C06" if tog == "BUG_UnregCap" else pid
                r = mc.model_check(scratch, fam, "quick", toggles=(tog,), tag="tog" + tog)
                selftest[tog] = r.violated
                if not r.violated:
                    raise C.Inconclusive("self-test: toggle %s no longer violates anything (vacuous model?)" % tog)
        # 2. spec -> code: TLC-generated behaviours replayed through the gate scheduler
        n_plan, n_gated, n_free = (60, 120, 40) if quick else (1500, 2500, 600)
        behaviours, consts, simres = mc.simulate(scratch, pid, "thorough", n_plan, 90 if quick else 140, seed)
        scenarios = [mc.scenario_from_behaviour(b, consts, "%s-p-%d" % (pid, i)) for i, b in enumerate(behaviours)]
        # 3. seeded random programs and schedules, and free-running stress
        scenarios += [gen_scenario(rng, pid, i, "random") for i in range(n_gated)]
        if pid in ("C08", "C06"):
            scenarios += [overflow_scenario(rng, pid, i, "random") for i in range(12 if quick else 200)]
        if pid == "C08":
            # (gated: the scheduler keeps a caller at the gate while the control channel is full; free-running: the callers beyond
            # its capacity really wait on the channel, and must come back when their contexts end at teardown)
            scenarios += [enable_after_exit_scenario(rng, pid, i, "random" if i % 2 else "free") for i in range(12 if quick else 100)]
        if pid in ("C04", "C06", "C08"):
            scenarios += [done_scenario(rng, pid, i, "random") for i in range(40 if quick else 400)]
        free = [gen_scenario(rng, pid, i, "free") for i in range(n_free)]
        for s in free:
            s["oracle"] = False
        if pid in ("C05", "C06"):
            free += [stress_scenario(rng, i) for i in range(6 if quick else 60)]
        scenarios += free
        # half of the scenarios keep leaf y behind a user-declared pointer to a struct that sources hand over with its own type
        # (the overlay then assigns / merges pointers instead of scalars: aliasing between stored values and published configs)
        for i, s in enumerate(scenarios):
            s["ptry"] = (i + seed) % 2 == 1
            # a third of the scenarios: blocking reports hand over one buffer per source by pointer, rewritten in place
            # (only with a single watching source: dials keeps the pointer it was given, so with a second source a re-stack could
            # read the buffer while it is being rewritten - that would be the source's mistake, not the library's)
            # (and only where no reporter context is cancelled: a reporter that gave up on a blocking report cannot know whether
            # the monitor still holds the buffer, rewriting it for the next report would again be the source's mistake - seen
            # once as a strict-conformance divergence: the monitor composed the rewritten buffer of an abandoned report)
            s["reusebuf"] = (i + seed) % 3 == 0 and len(s.get("init") or []) == 1 and not s.get("pcancel")
        events, crashes = run_scenarios(vh, scratch, scenarios, workers=12)
        violations = []
        for sc, stderr in crashes:
            rp = C.write_replay(pid, sc, replay_obj(pid, sc, events, [{"p": "C08_Panic"}], note=stderr))
            if pid == "C08":
                first = stderr.strip().splitlines()[0] if stderr.strip() else ""
                violations.append(("process crashed in scenario %s: %s" % (sc, first), rp))
        # 4. code -> spec (a): the observer evaluates the properties on every recorded history
        viol = []
        obs_states = 0
        idx = [i for i, e in enumerate(events) if e.get("ev") == "begin"] + [len(events)]
        batch, nb = [], 0
        for a, b in zip(idx, idx[1:]):
            batch.extend(events[a:b])
            if len(batch) >= 60000 or b == len(events):
                v, res = observe(scratch, batch, "obs%d" % nb)
                viol.extend(v)
                obs_states += res.distinct
                batch, nb = [], nb + 1
        mine = [v for v in viol if v["p"].startswith(TAGS[pid])]
        others = sorted({v["p"] for v in viol if not v["p"].startswith(TAGS[pid])})
        by_sc = {}
        for v in mine:
            by_sc.setdefault(v["sc"], []).append(v)
        for sc, vs in sorted(by_sc.items()):
            rp = C.write_replay(pid, sc, replay_obj(pid, sc, events, vs))
            violations.append(("%s in scenario %s at event %s" % (",".join(sorted({v["p"] for v in vs})), sc, min(v["seq"] for v in vs)), rp))
        inductive = mc.apalache_inductive(scratch) if pid in ("C04", "C05") else None
        delay_run = None
        if pid == "C09":
            # the Delay x Suppress machine as a sequential model (Delay.tla), every history up to MaxOps, for a config type with
            # and one without a Verify method, executed against the real library
            from .wrapcheck import run_cases
            dd = scratch.sub("delay")
            C.copy_specs(dd, ["Delay.tla"])

            def dcfg(bug, emit):
                lines = ["SPECIFICATION Spec", "CONSTANTS", "  MaxOps = %d" % (4 if quick else 6),
                         "  BUG_NoDelayWithoutVerify = %s" % ("TRUE" if bug else "FALSE"),
                         "INVARIANTS WithheldOnlyWhile DeliveredAfterEnable IndependentOfVerifiable", "CHECK_DEADLOCK FALSE"]
                if emit:
                    lines.append("CONSTRAINT Emit")
                open(os.path.join(dd, "D.cfg"), "w").write("\n".join(lines) + "\n")
            dcfg(False, True)
            dres = C.run_tlc(dd, "Delay", "D.cfg", workers=1, timeout=900)
            if not dres.ok:
                raise C.Inconclusive("Delay.tla violates its own properties (%s): specification alarm" % dres.violated)
            dcases = []
            for line in dres.out.splitlines():
                if line.startswith('<<"CASE"'):
                    js = line[line.index(",") + 1:].strip()
                    dcases.append(json.loads(json.loads(js[:js.rindex(">>")].strip())))
            dcases = [c for c in dcases if len(c["hist"]) >= 2 or not quick]
            for i, c in enumerate(dcases):
                c["id"] = "d%d" % i
            dcfg(True, False)
            if not C.run_tlc(dd, "Delay", "D.cfg", workers=2, timeout=300).violated:
                raise C.Inconclusive("self-test: Delay.tla's seeded mistake no longer violates anything")
            dresults, dcrashes = run_cases(vh, scratch, dcases, workers=12, subcmd="delay")
            dby = {c["id"]: c for c in dcases}
            nbad = 0
            for cid, first, stderr in dcrashes:
                rp = C.write_replay(pid, cid, {"property": pid, "kind": "delay", "case": dby.get(cid), "crash": stderr[-1500:]})
                violations.append(("process crashed in Delay history %s: %s" % (cid, first), rp))
            for r in dresults:
                ms = r.get("mismatches") or []
                if ms:
                    nbad += 1
                    if nbad <= 10:
                        rp = C.write_replay(pid, r["id"], {"property": pid, "kind": "delay", "case": dby.get(r["id"]), "mismatches": ms})
                        violations.append(("Delay history %s: %s" % (r["id"], ms[0]["detail"][:220]), rp))
            delay_run = {"histories": len(dcases), "distinct_states": dres.distinct, "mismatching": nbad, "seeded_mistake_breaks_model": True}
        if pid == "C08":
            # API calls after shutdown on the Blank wrapper (SetSource / Done after the monitor exited) must fail, not panic
            from . import wrapcheck
            bad, n_sel, wstates = wrapcheck.blank_context_cases(vh, scratch, seed, quick, want="panic")
            for detail, case in bad[:10]:
                rp = C.write_replay(pid, case["id"], {"property": pid, "kind": "wrap", "case": case, "mismatches": [{"kind": "panic", "detail": detail}]})
                violations.append(("Blank history %s: %s" % (case["id"], detail[:200]), rp))
        blank_ctx = None
        if pid == "C07":
            # "... and therefore Blank.SetSource": the Blank histories of Wrap.tla with the monitor gone, under a watchdog
            from . import wrapcheck
            bad, n_sel, wstates = wrapcheck.blank_context_cases(vh, scratch, seed, quick)
            blank_ctx = {"histories_executed": n_sel, "wrap_states": wstates, "breaches": len(bad)}
            for detail, case in bad[:10]:
                rp = C.write_replay(pid, case["id"], {"property": pid, "kind": "wrap", "case": case, "mismatches": [{"kind": "ref", "c07": True, "detail": detail}]})
                violations.append(("Blank history %s: %s" % (case["id"], detail[:200]), rp))
        # 5. code -> spec (b): strict conformance of gated executions with Dials.tla
        by = {}
        for e in events:
            by.setdefault(e.get("sc"), []).append(e)
        gated = [s for s in scenarios if s["mode"] != "free" and s["id"] in by and s["id"] not in {c[0] for c in crashes}]
        n_conf = 80 if quick else 1200
        step = max(1, len(gated) // n_conf)
        chosen = gated[::step][:n_conf]
        conf = conform.validate(scratch, [(s, by[s["id"]]) for s in chosen], workers=14)
        binding = binding_selftest(scratch, scenarios, by)
        status = {}
        for r in conf:
            status[r["status"]] = status.get(r["status"], 0) + 1
        diverged = [r for r in conf if r["status"] == "diverged"]
        plan_skips = sum(e.get("skipped", 0) for e in events if e.get("ev") == "final" and "-p-" in e.get("sc", ""))
        cov = counts(events)
        sample = [{k: v for k, v in e.items() if k not in ("scenario", "detail")} for e in by.get(scenarios[0]["id"], [])][:40]
        coverage = {
            "states": mcres.distinct, "transitions": mcres.generated,
            "traces_validated_against_impl": cov["scenarios"],
            "samples": [{"scenario": {k: v for k, v in scenarios[0].items() if k != "spec_actions"}, "first_events": sample}],
            "evaluations": cov["scenarios"], "distinct_nontrivial": nontrivial(events, pid),
            "rule": "TLC -simulate behaviours of Dials.tla replayed through the gate scheduler, seeded random programs with seeded random "
                    "schedules, and free-running stress, all against the real library; " + RULE_TEXT[pid] +
                    "; distinct = different (scenario, executed schedule) pairs",
            "model": {"config": mc.consts_for(pid, tier), "distinct_states": mcres.distinct, "generated_states": mcres.generated,
                      "depth": mcres.depth, "invariants": mc.INVARIANTS, "action_properties": mc.ACTION_PROPS, "wall_s": round(mcres.wall, 1)},
            "model_second_configuration": mc_also, "toggle_selftest": selftest, "binding_selftest": binding, "delay_machine": delay_run, "unbounded_inductive_invariant": inductive, "blank_set_source_context": blank_ctx,
            "spec_behaviours_replayed": len(behaviours), "plan_steps_not_enabled_in_code": plan_skips,
            "observer": {"events": len(events), "tlc_states": obs_states, "breaches_total": len(viol), "other_property_tags_seen": others},
            "strict_conformance": {"traces": len(conf), "by_status": status,
                                   "divergences": [{k: v for k, v in r.items() if k != "tlc_tail"} for r in diverged[:5]]},
            "measured": cov, "crashes": len(crashes),
            "checker_cmd": "tlc MCDials (exhaustive) ; tlc -simulate MCDials (plans) ; tlc DialsObs (observer) ; tlc MCTrace (DialsTrace, one run per trace)",
        }
        C.write_evidence(pid, tier, "model_checking", coverage, time.time() - t0, len(violations),
                         ["the hooks (build tag verif) sit at the linearization points named in DESIGN.md 5.1",
                          "free-running traces are judged only by order-insensitive rules",
                          "a strict-conformance divergence alone is reported, not a violation (DESIGN.md 6)"])
        for r in diverged[:3]:
            print("DIVERGENCE scenario=%s at step %s: %s" % (r["sc"], r.get("depth"), json.dumps(r.get("first_unmatched"))))
        return C.finish(pid, violations)
    finally:
        scratch.cleanup()


def run_replay(pid, vh, scratch, path):
    obj = json.load(open(path))
    if obj.get("kind") == "delay":
        from . import wrapcheck
        res, crashes = wrapcheck.run_cases(vh, scratch, [obj["case"]], workers=1, subcmd="delay")
        bad = crashes or [m for r in res for m in (r.get("mismatches") or [])]
        print("replay:", "reproduced" if bad else "not reproduced")
        if bad:
            print("VIOLATION property=%s replay=%s  (reproduced)" % (pid, path))
        return 1 if bad else 0
    if obj.get("kind") == "wrap":
        from . import wrapcheck
        res, crashes = wrapcheck.run_cases(vh, scratch, [obj["case"]], workers=1)
        bad = crashes or [m for r in res for m in (r.get("mismatches") or []) if m.get("c07") or m.get("kind") in ("panic", "leak")]
        print("replay:", "reproduced" if bad else "not reproduced")
        if bad:
            print("VIOLATION property=%s replay=%s  (reproduced)" % (pid, path))
        return 1 if bad else 0
    sc = obj["scenario"]
    tries = 1 if sc.get("mode") == "plan" else 20
    for t in range(tries):
        events, crashes = run_scenarios(vh, scratch, [sc], workers=1)
        if crashes:
            print("replay: process crashed:", crashes[0][1].strip().splitlines()[0])
            print("VIOLATION property=%s replay=%s  (reproduced)" % (pid, path))
            return 1
        viol, _ = observe(scratch, events, "replay%d" % t)
        mine = [v for v in viol if v["p"].startswith(TAGS[pid])]
        if mine:
            print("replay reproduced:", sorted({v["p"] for v in mine}))
            print("VIOLATION property=%s replay=%s  (reproduced)" % (pid, path))
            return 1
    print("replay: not reproduced in %d run(s)" % tries)
    return 0
