"""C01 / C02: stacking. TLC checks on spec/Stack.tla that the overlay algorithm as written yields the last-set-wins
result for every shape / defaults / layer pattern in the bounded universe and emits the cases with the expected
result after every prefix of the layers; the Go driver materialises each case as real Go types, runs the real
compose and judges precedence (C01) and isolation of versions and inputs (C02) by the property statements."""
import json
import os
import random
import subprocess
import time
from concurrent.futures import ThreadPoolExecutor

from . import common as C

INNER_LIST = ['<<[k |-> "int"]>>', '<<[k |-> "int"], [k |-> "slice"]>>', '<<[k |-> "chan"], [k |-> "int"]>>',
              '<<[k |-> "pint"], [k |-> "dash"], [k |-> "str"]>>', '<<[k |-> "map"], [k |-> "func"], [k |-> "time"]>>',
              '<<[k |-> "dashref"], [k |-> "int"]>>', '<<[k |-> "parr"], [k |-> "str"]>>',
              '<<[k |-> "slice"], [k |-> "pint"]>>']     # every member already nil-able: the pointerified type is the type itself
INNER = "{ %s }" % ", ".join(INNER_LIST)
ALL_LEAF = '{"int","str","dur","time","slice","map","arr","pint","parr","pkmap","mmap","pslice"}'
ALL_SKIP = '{"dash","dashref","chan","func","unexp"}'
ALL_STRUCT = '{"struct","pstruct","emb"}'


def write_model(d, maxfields, maxlayers, sample, leaf=ALL_LEAF, skip=ALL_SKIP, struct=ALL_STRUCT, toggles=(), emit=True, inner=None):
    C.copy_specs(d, ["Stack.tla"])
    open(os.path.join(d, "MCStack.tla"), "w").write("---- MODULE MCStack ----\nEXTENDS Stack\nMCInner == %s\n====\n" % (inner or INNER))
    lines = ["SPECIFICATION Spec", "CONSTANTS", "  MaxFields = %d" % maxfields, "  MaxLayers = %d" % maxlayers, "  SampleN = %d" % sample,
             "  LeafKinds = " + leaf, "  SkipKinds = " + skip, "  StructKinds = " + struct, "  InnerShapes <- MCInner"]
    for t in ("BUG_IndexDrift", "BUG_PtrMerge"):
        lines.append("  %s = %s" % (t, "TRUE" if t in toggles else "FALSE"))
    lines += ["INVARIANT LastSetWins", "PROPERTY EmptyLayerIsIdentity", "CHECK_DEADLOCK FALSE"]
    if emit:
        lines.append("CONSTRAINT Emit")
    open(os.path.join(d, "S.cfg"), "w").write("\n".join(lines) + "\n")


def cases_of(out):
    res = []
    for line in out.splitlines():
        if line.startswith('<<"CASE"'):
            js = line[line.index(",") + 1:].strip()
            res.append(json.loads(js[:js.rindex(">>")].strip()))
    return res


def run_driver(vh, scratch, sub, cases, workers=12):
    """cases: list of JSON strings (with id). Returns (mismatch records, crashes, executed)."""
    chunks = [cases[i::workers] for i in range(workers)]
    chunks = [c for c in chunks if c]

    def one(i, chunk):
        cf, rf = scratch.path("%s-c%d" % (sub, i)), scratch.path("%s-r%d" % (sub, i))
        open(cf, "w").write("\n".join(chunk) + "\n")
        p = subprocess.run([vh, sub, cf, rf], capture_output=True, text=True, timeout=3000)
        recs, final = [], None
        if os.path.exists(rf):
            for line in open(rf):
                try:
                    r = json.loads(line)
                except ValueError:
                    continue
                if r.get("final"):
                    final = r
                else:
                    recs.append(r)
        if p.returncode != 0 or final is None:
            first = next((l for l in p.stderr.splitlines() if l.startswith(("panic:", "fatal error:"))), p.stderr[:300])
            return recs, [(sub + "-chunk%d" % i, first, p.stderr[-3000:], cf)], 0
        return recs, [], final["cases"]

    recs, crashes, n = [], [], 0
    with ThreadPoolExecutor(max_workers=workers) as ex:
        for r, c, k in ex.map(lambda a: one(*a), list(enumerate(chunks))):
            recs.extend(r)
            crashes.extend(c)
            n += k
    return recs, crashes, n


def run_check(pid, tier, replay=None):
    t0 = time.time()
    scratch = C.Scratch(pid)
    try:
        vh = C.build_harness(scratch)
        if replay:
            obj = json.load(open(replay))
            if obj.get("kind") == "sources":
                from .wrapcheck import run_cases
                res, crashes = run_cases(vh, scratch, [obj["case"]], workers=1, subcmd="sources")
                bad = crashes or [m for r in res for m in (r.get("mismatches") or []) if m["prop"] == pid]
            else:
                recs, crashes, _ = run_driver(vh, scratch, "stack", [json.dumps(obj["case"])], workers=1)
                bad = crashes or [m for r in recs for m in r["mismatches"] if m["prop"] == pid]
            print("replay:", "reproduced" if bad else "not reproduced", (bad or [])[:1])
            if bad:
                print("VIOLATION property=%s replay=%s  (reproduced)" % (pid, replay))
            return 1 if bad else 0
        seed = C.seed()
        quick = tier == "quick"
        runs, cases, states, trans = [], [], 0, 0
        rng = random.Random(seed)
        if quick:
            # all leaf / skipped / nested kinds, two seeded inner shapes; one case in 48 of the two-field universe is replayed (every single-field case is)
            inner = "{ %s }" % ", ".join(rng.sample(INNER_LIST[:-1], 2) + INNER_LIST[-1:])
            plan = [(2, 2, 48, inner), (1, 3, 1, None)]
        else:
            # measured: (2,2) over every inner shape is 25.7M states / 250 s; (3,1) over every inner shape does not finish
            # (three-field inner shapes cube the value space: > 24 GB of states after 16 min), so the three-field universe
            # takes three seeded inner shapes of at most two fields (16-40M states); sampling keeps the replay near 2M cases
            small = [x for x in INNER_LIST if x.count("[k |->") <= 2]
            inner3 = "{ %s }" % ", ".join(rng.sample(small, 3))
            plan = [(2, 2, 16, None), (3, 1, 60, inner3), (1, 3, 1, None)]
        for i, (mf, ml, sample, inner) in enumerate(plan):
            d = scratch.sub("st%d" % i)
            write_model(d, mf, ml, sample, inner=inner)
            res = C.run_tlc(d, "MCStack", "S.cfg", timeout=3000, extra=["-seed", str(seed)])
            if not res.ok:
                raise C.Inconclusive("Stack.tla violates its own properties (%s): specification alarm\n%s" % (res.violated, res.out[-1500:]))
            cs = cases_of(res.out)
            states += res.distinct
            trans += res.generated
            runs.append({"max_fields": mf, "max_layers": ml, "distinct_states": res.distinct, "emitted_one_in": sample, "cases": len(cs)})
            cases += cs
        selftest = {}
        for tog in ("BUG_IndexDrift", "BUG_PtrMerge"):
            d = scratch.sub("stt" + tog)
            write_model(d, 2, 1, 1, toggles=(tog,), emit=False)
            r = C.run_tlc(d, "MCStack", "S.cfg", timeout=900)
            selftest[tog] = r.violated
            if not r.violated:
                raise C.Inconclusive("self-test: toggle %s no longer violates anything" % tog)
        uniq = sorted(set(cases))
        payload = []
        for i, c in enumerate(uniq):
            payload.append('{"id": "s%d", %s' % (i, c[1:]))
        recs, crashes, executed = run_driver(vh, scratch, "stack", payload)
        byid = {"s%d" % i: c for i, c in enumerate(uniq)}
        violations = []
        for cid, first, stderr, cf in crashes:
            rp = C.write_replay(pid, cid, {"property": pid, "kind": "stack", "crash": stderr, "cases_file_excerpt": open(cf).read()[:4000]})
            violations.append(("the driver process died: %s" % first, rp))
        other = {}
        for r in recs:
            if len(violations) >= 30:
                break
            mine = [m for m in r["mismatches"] if m["prop"] == pid]
            for m in r["mismatches"]:
                if m["prop"] != pid:
                    other[m["prop"]] = other.get(m["prop"], 0) + 1
            if mine:
                case = json.loads(byid[r["id"]])
                case["id"] = r["id"]
                rp = C.write_replay(pid, r["id"], {"property": pid, "kind": "stack", "case": case, "mismatches": r["mismatches"]})
                violations.append(("case %s (after %d layer(s)): %s" % (r["id"], mine[0]["prefix"], mine[0]["detail"][:220]), rp))
        known_hits, pipeline = set(), None
        if pid == "C02":
            # the same statement through real sources inside Config: the struct a caller passes to Config as defaults is also the
            # template of its flag source (what ez does); Config asks the source for its value, nothing may be written into that
            # struct. Cases come from Sources.tla (one field, every leaf kind), executed by the sources driver.
            import re
            from . import srccheck as S
            from .wrapcheck import run_cases
            d = scratch.sub("c02src")
            S.write_model(d, S.ALL_KINDS, ["none", "snake"], ["struct", "pstruct"], 1, 1, False, False)
            sres = C.run_tlc(d, "MCSources", "S.cfg", timeout=1500)
            if not sres.ok:
                raise C.Inconclusive("Sources.tla violates its own properties: specification alarm\n" + sres.out[-1500:])
            scases = S.cases_of(sres.out)
            for i, c in enumerate(scases):
                c.update(id="t%d" % i, seed=i, garbage="")
            sresults, scrashes = run_cases(vh, scratch, scases, workers=12, subcmd="sources")
            sby = {c["id"]: c for c in scases}
            known = C.load_known()["findings"]
            hits = 0
            for r in sresults:
                for m in r.get("mismatches") or []:
                    if m["prop"] != "C02":
                        continue
                    hits += 1
                    k = next((k for k in known if k["property"] == "C02" and re.search(k["match"], m["detail"])
                              and (not k.get("src") or m.get("src") in k["src"])), None)
                    if k:
                        known_hits.add(k["what"])
                    elif len(violations) < 30:
                        rp = C.write_replay(pid, r["id"], {"property": pid, "kind": "sources", "case": sby[r["id"]], "mismatches": [m]})
                        violations.append(("case %s [%s]: %s" % (r["id"], m.get("src"), m["detail"][:220]), rp))
            pipeline = {"cases": len(scases), "distinct_states": sres.distinct, "template_writes_seen": hits, "crashes": len(scrashes)}
        nontriv = 0
        for c in uniq:
            j = json.loads(c)
            if len(j["layers"]) >= 2 or any(f.get("sub") for f in j["shape"]):
                nontriv += 1
        coverage = {
            "states": states, "transitions": trans, "traces_validated_against_impl": executed,
            "samples": [json.loads(uniq[len(uniq) // 2]), json.loads(uniq[-1])],
            "evaluations": executed, "distinct_nontrivial": nontriv, "exhaustive": not quick,
            "rule": "case = (struct shape over all leaf / skipped / nested kinds, defaults, one value per layer over the pointerified "
                    "shape with unset / set / set-empty per leaf and nil / non-nil parents); executed for every prefix of the layers with "
                    "the same defaults object; non-trivial = two or more layers or a nested struct; distinct by content",
            "model_runs": runs, "toggle_selftest": selftest, "mismatches_for_other_properties": other, "crashes": len(crashes),
            "through_real_sources": pipeline,
            "checker_cmd": "tlc MCStack (exhaustive; CONSTRAINT Emit prints the cases) ; vh stack cases results",
        }
        C.write_evidence(pid, tier, "model_checking", coverage, time.time() - t0, len(violations),
                         ["types are built with reflect.StructOf over the leaf types listed in DESIGN.md 5.4; interface-typed fields are outside the property's quantifier",
                          "memory reachable only through unexported fields is not inspected (as in the statement)"])
        return C.finish(pid, violations[:25], sorted(known_hits))
    finally:
        scratch.cleanup()
