"""Strict conformance: rewrite a gated harness trace into spec-action records and let TLC check that it is a
behaviour of Dials.tla (DialsTrace.tla)."""
import json
import os
from concurrent.futures import ThreadPoolExecutor

from . import common as C
from . import mc

ANY = {"i": -1, "op": "?", "x": -1, "y": -1, "h": -1, "serial": -1, "qlen": -1}


def rec(names, **kw):
    r = dict(ANY)
    r.update(kw)
    r["as"] = list(names)
    return r


def actions_of(events):
    """events: one scenario's gated trace (up to teardown). Returns (records, constants-info) or None when not convertible."""
    out = []
    at = {}          # goroutine -> last gate event
    steps = {}
    order = []
    cur = 0
    for e in events:
        if e["ev"] == "teardown":
            break
        if e["ev"] == "move":
            cur += 1
        if cur not in steps:
            steps[cur] = []
            order.append(cur)
        steps[cur].append(e)
    GATES = ("mon.", "cb.", "cbenter", "op.pre", "rep.", "api.")
    cur_op = {}      # proc -> latest call event
    for st in order:
        evs = steps[st]
        move = next((e for e in evs if e["ev"] == "move"), None)
        byg = {}
        for e in evs:
            byg.setdefault(e["g"], []).append(e)

        def gate_of(g):
            gs = [e for e in byg.get(g, []) if e["ev"].startswith(GATES) and e["ev"] not in
                  ("mon.replied", "mon.submit", "mon.events", "mon.enable", "api.submit.sent", "api.ctl.sent", "cb.unregd", "cbexit")]
            return gs[-1] if gs else None

        def note(g, name):
            return next((e for e in byg.get(g, []) if e["ev"] == name), None)

        for e in evs:
            if e["ev"] == "call":
                cur_op[e["g"]] = e
        if move is None:
            for g in byg:
                ge = gate_of(g)
                if ge is not None:
                    at[g] = ge
            continue
        item = move["item"]
        if item == "!ctx":
            out.append(rec(["Cancel"]))
            continue
        if item.startswith("!r"):
            out.append(rec(["RepCancel"], i=int(item[2:])))
            continue
        if item.startswith("!c"):
            out.append(rec(["CliCancel"], i=int(item[2:])))
            continue
        if item.startswith("mon+"):
            r = item[4:]
            s = int(r[1:])
            c = cur_op.get(r, {})
            kw = dict(i=s, op=c.get("op", "?"))
            if c.get("op") in ("val", "block"):
                kw.update(x=c["x"], y=c["y"])
            out.append(rec(["MonRecv"], **kw))
            for g in ("mon", r):
                ge = gate_of(g)
                if ge is not None:
                    at[g] = ge
                elif g == r:
                    at.pop(g, None)
            continue
        g = item
        prev = at.get(g)
        ge = gate_of(g)
        pe = prev["ev"] if prev else ""
        if g == "mon":
            exited = note("mon", "mon.exited")
            if exited is not None:
                out.append(rec(["MonExit"]))
            elif ge is None:
                return None
            elif ge["ev"] == "mon.recv":
                out.append(rec(["MonRecvCtl"]))
            elif ge["ev"] == "mon.composed":
                out.append(rec(["MonCompose"], op="ok" if ge["ok"] else "fail"))
            elif ge["ev"] == "mon.verified":
                out.append(rec(["MonVerify"], op="ok" if ge["ok"] else "fail"))
            elif ge["ev"] == "mon.rejected":
                sub = note("mon", "mon.submit")
                out.append(rec(["MonRejSubmit"], op=ge["why"], h=0 if (sub and sub["res"] == "sent") else 1))
            elif ge["ev"] == "mon.store":
                out.append(rec(["MonStore"], i=ge["serial"], x=ge["cfgx"], y=ge["cfgy"], serial=ge["serial"]))
            elif ge["ev"] == "mon.notified":
                n = note("mon", "mon.events")
                out.append(rec(["MonNotify"], op="sent" if (n and n["sent"]) else "full"))
            elif ge["ev"] == "mon.reply":
                out.append(rec(["MonReply"]))
            elif ge["ev"] in ("mon.select", "mon.exit"):
                if pe == "mon.reply":
                    sub = note("mon", "mon.submit")
                    out.append(rec(["MonSubmitNew"], h=0 if (sub and sub["res"] == "sent") else 1))
                elif pe == "mon.rejected":
                    out.append(rec(["MonRejReply"]))
                elif pe == "mon.recv" and prev.get("kind") == "err":
                    sub = note("mon", "mon.submit")
                    if sub is None:
                        out.append(rec(["MonSrcErr"], op="withheld"))
                    else:
                        out.append(rec(["MonSrcErr"], op="submitted", h=0 if sub["res"] == "sent" else 1))
                elif pe == "mon.recv" and prev.get("kind") == "done":
                    out.append(rec(["MonDone"]))
                elif pe == "mon.recv" and prev.get("kind") == "ctl":
                    en = note("mon", "mon.enable")
                    op = "?"
                    if en is not None:
                        op = "noop" if en.get("noop") else ("ok" if en.get("ok") else "fail")
                    out.append(rec(["MonEnable"], op=op))
                elif pe == "mon.select" and ge["ev"] == "mon.exit":
                    out.append(rec(["MonCtx"]))
                else:
                    return None
            else:
                return None
        elif g == "cb":
            if note("cb", "cb.exited") is not None:
                out.append(rec(["CbExit"]))
            elif ge is None:
                return None
            elif ge["ev"] == "cb.recv":
                out.append(rec(["CbRecv"], op=ge["kind"], i=ge.get("serial", 0) if ge["kind"] == "newcfg" else 0))
            elif ge["ev"] == "cbenter":
                w = ge["which"]
                if w == "h":
                    catch = prev is not None and prev["ev"] == "cb.recv" and prev.get("kind") == "reg"
                    out.append(rec(["CbAdvance"], op="catchup" if catch else "h", h=ge["h"]))
                else:
                    out.append(rec(["CbAdvance"], op=w))
            elif ge["ev"] == "cb.idle":
                out.append(rec(["CbAdvance"], op="idle"))
            else:
                return None
        elif g.startswith("r"):
            s = int(g[1:])
            ret = note(g, "ret")
            if pe == "op.pre" and ge is not None and ge["ev"] == "rep.send.pre":
                c = cur_op.get(g, {})
                kw = dict(i=s, op=c.get("op", "?"))
                if c.get("op") in ("val", "block"):
                    kw.update(x=c["x"], y=c["y"])
                out.append(rec(["RepStart"], **kw))
            elif pe == "rep.send.pre" and ret is not None:
                out.append(rec(["RepGiveUp"], i=s))      # released alone: only the ctx.Done arm was ready
            elif pe == "rep.await.pre" and ret is not None:
                if ret["res"] == "ctx":
                    out.append(rec(["RepGiveUp"], i=s))
                else:
                    out.append(rec(["RepGotReply"], i=s, op=ret["res"]))
            else:
                return None
        elif g.startswith("c"):
            ci = int(g[1:])
            ret = note(g, "ret")
            if pe == "op.pre":
                if note(g, "view") is not None:
                    out.append(rec(["CliView"], i=ci))
                elif ge is not None and ge["ev"] in ("api.submit.pre", "api.ctl.pre"):
                    c = cur_op.get(g, {})
                    if c.get("op") == "reg":
                        out.append(rec(["CliStart"], i=ci, op="reg", x=1 if c.get("tokvalid") else 0, y=1 if c.get("block") else 0))
                    elif c.get("op") == "unreg":
                        out.append(rec(["CliStart"], i=ci, op="unreg", h=c["h"]))
                    else:
                        out.append(rec(["CliStart"], i=ci, op="enable"))
                elif ret is not None and ret.get("op") == "enable":
                    out.append(rec(["CliEnableNoop"], i=ci))
                elif ret is not None and ret.get("op") == "unreg" and ret.get("nofunc"):
                    return None   # the program unregisters a handle whose registration failed: not an action of the spec
                elif ret is not None and ret.get("op") in ("reg", "unreg") and not ret.get("ok"):
                    return None
                else:
                    return None
            elif pe == "api.submit.pre":
                if note(g, "api.submit.sent") is not None:
                    out.append(rec(["CliSubmitCb"], i=ci, op="sent"))
                else:
                    out.append(rec(["CliSubmitCb", "CliGiveUp"], i=ci))
            elif pe == "api.await.pre":
                if ret is not None and ret.get("ok"):
                    out.append(rec(["CliUnregDone"], i=ci))
                else:
                    out.append(rec(["CliUnregShutdown", "CliGiveUp"], i=ci))
            elif pe == "api.ctl.pre":
                if ge is not None and ge["ev"] == "api.ctl.await":
                    out.append(rec(["CliCtlSend"], i=ci))
                else:
                    out.append(rec(["CliGiveUp"], i=ci))
            elif pe == "api.ctl.await":
                if ret is not None and ret["res"] != "ctx":
                    out.append(rec(["CliCtlResp"], i=ci, op="ok" if ret["res"] == "nil" else "fail"))
                else:
                    out.append(rec(["CliGiveUp"], i=ci))
            else:
                return None
        elif g.startswith("e"):
            if note(g, "events.recv") is not None:
                out.append(rec(["EventsRecv"]))
        for gg in byg:
            ge2 = gate_of(gg)
            if ge2 is not None:
                at[gg] = ge2
    return out


def tla_val(v):
    return "[x |-> %d, y |-> %d, u |-> %s]" % (v.get("x", 0), v.get("y", 0), "TRUE" if v.get("u") else "FALSE")


def validate_one(scratch, idx, scen, events):
    if not scen["init"]:
        return {"sc": scen["id"], "status": "out-of-scope"}   # Dials.tla models the kernel with at least one watching source
    if any(e.get("ev") == "config" and not e.get("ok") for e in events):
        return {"sc": scen["id"], "status": "out-of-scope"}   # Config failed (a failing start): the kernel never ran
    acts = actions_of(events)
    if acts is None:
        return {"sc": scen["id"], "status": "unconvertible"}
    d = scratch.sub("tr%d" % idx)
    C.copy_specs(d, ["Dials.tla", "DialsTrace.tla", "KernelData.tla"])
    with open(os.path.join(d, "t.ndjson"), "w") as f:
        for a in acts:
            f.write(json.dumps(a) + "\n")
    vals = []
    clients = set()
    maxops = 1
    for p, ops in scen["procs"].items():
        maxops = max(maxops, len(ops))
        if p.startswith("c"):
            clients.add(int(p[1:]))
        for op in ops:
            if op.get("v") is not None:
                vals.append(op["v"])
    if not clients:
        clients = {1}
    uniq = {tla_val(v) for v in vals} or {tla_val({})}
    mod = ["---- MODULE MCTrace ----", "EXTENDS DialsTrace",
           "TVals == {%s}" % ", ".join(sorted(uniq)),
           "TInit == <<%s>>" % ", ".join(tla_val(v) for v in scen["init"]),
           "TDef == [x |-> %d, y |-> %d]" % (scen["def"].get("x", 0), scen["def"].get("y", 0)),
           "TClients == {%s}" % ", ".join(str(c) for c in sorted(clients)), "===="]
    open(os.path.join(d, "MCTrace.tla"), "w").write("\n".join(mod) + "\n")
    B = lambda b: "TRUE" if b else "FALSE"
    consts = dict(NSrc=len(scen["init"]), InitVal="TInit", Vals="TVals", Def="TDef", Clients="TClients",
                  CbCap=scen["cbcap"] if scen["cbcap"] > 0 else 64, MaxSerial=99, MaxRepOps=maxops, MaxCliOps=maxops,
                  RepOps=mc.S("val", "block", "err", "done"), CliOps=mc.S("view", "reg", "unreg", "enable"),
                  AllowRepCancel="TRUE", AllowCliCancel="TRUE", AllowCancel="TRUE", BlockingCbs="TRUE",
                  Skip=B(scen["skip"]), Delay=B(scen["delay"]), Suppress=B(scen["suppress"]), OnNew=B(scen["onnew"]), OnErr=B(scen["onerr"]))
    lines = ["SPECIFICATION TraceSpec", "CONSTANTS", '  LogFile = "t.ndjson"']
    for k, v in consts.items():
        op = "<-" if isinstance(v, str) and v.startswith("T") and v not in ("TRUE",) else "="
        lines.append("  %s %s %s" % (k, op, v))
    for t in mc.TOGGLES:
        lines.append("  %s = FALSE" % t)
    lines += ["VIEW TView", "CHECK_DEADLOCK FALSE", "INVARIANTS Accepted " + " ".join(mc.INVARIANTS)]
    open(os.path.join(d, "T.cfg"), "w").write("\n".join(lines) + "\n")
    res = C.run_tlc(d, "MCTrace", "T.cfg", workers=1, timeout=300)
    accepted = bool(res.printed("ACCEPTED"))
    r = {"sc": scen["id"], "status": "accepted" if accepted else "diverged", "steps": len(acts), "depth": res.depth,
         "states": res.distinct, "violated": res.violated}
    if not accepted:
        k = max(res.depth - 1, 0)
        r["first_unmatched"] = acts[k] if k < len(acts) else None
        r["tlc_tail"] = res.out[-600:] if not res.depth else ""
    return r


def validate(scratch, scenarios_events, workers=12):
    """scenarios_events: list of (scenario dict, events). Returns list of result dicts."""
    with ThreadPoolExecutor(max_workers=workers) as ex:
        futs = [ex.submit(validate_one, scratch, i, s, e) for i, (s, e) in enumerate(scenarios_events)]
        return [f.result() for f in futs]
