"""C18: the ez entry points. TLC enumerates / samples cases of spec/Ez.tla (which layers provide which leaf, where the
config path comes from, file state, format, watching, later file changes), checks precedence / verify-once /
no-exposure on the model and emits every case with the expected outcome; the Go driver runs the real ez entry points
with real files, environment variables and a fresh flag set."""
import json
import os
import random
import time

from . import common as C
from .wrapcheck import run_cases

FMTS = ["json", "yaml", "toml", "cue"]


def write_model(d, leaves, fmts, max_changes, toggles=(), emit=True, alias_leaf="", encs=("none",)):
    C.copy_specs(d, ["Ez.tla"])
    mod = ["---- MODULE MCEz ----", "EXTENDS Ez",
           "MCLeaves == <<%s>>" % ", ".join('"%s"' % l for l in leaves), "===="]
    open(os.path.join(d, "MCEz.tla"), "w").write("\n".join(mod) + "\n")
    lines = ["SPECIFICATION Spec", "CONSTANTS", "  Leaves <- MCLeaves",
             "  Fmts = {%s}" % ", ".join('"%s"' % f for f in fmts), "  MaxChanges = %d" % max_changes,
             '  AliasLeaf = "%s"' % alias_leaf, "  FileEncs = {%s}" % ", ".join('"%s"' % e for e in encs)]
    for t in ("BUG_EnvUnderFile", "BUG_VerifyIntermediate"):
        lines.append("  %s = %s" % (t, "TRUE" if t in toggles else "FALSE"))
    lines += ["INVARIANTS Precedence VerifyFailureIffFullInvalid VerifyOnlyFull VisibleValid NoIntermediateExposure", "CHECK_DEADLOCK FALSE"]
    if emit:
        lines.append("CONSTRAINT Emit")
    open(os.path.join(d, "E.cfg"), "w").write("\n".join(lines) + "\n")


def parse_cases(out):
    cases = []
    for line in out.splitlines():
        if line.startswith('<<"CASE"'):
            js = line[line.index(",") + 1:].strip()
            js = js[:js.rindex(">>")].strip()
            cases.append(json.loads(json.loads(js)))
    return cases


def alias_cases(vh, scratch, seed, quick=True):
    """C14 through the real ez entry points: the file supplies the aliased leaf under its alias name, with and without a
    FileFieldNameEncoder; returns the property-level mismatches of those cases."""
    d = scratch.sub("ezalias")
    write_model(d, ["b", "r"], ["json"] if quick else FMTS, 1, alias_leaf="b", encs=("none", "kebab"))
    res = C.run_tlc(d, "MCEz", "E.cfg", workers=1, timeout=2400)
    if not res.ok:
        raise C.Inconclusive("Ez.tla violates its own properties (%s): specification alarm" % res.violated)
    cs = [c for c in parse_cases(res.out) if c["fopt"]["alias"] or c["fopt"]["enc"] != "none"]
    rng = random.Random(seed)
    if len(cs) > (1500 if quick else 20000):
        cs = rng.sample(cs, 1500 if quick else 20000)
    for i, c in enumerate(cs):
        c["id"] = "ea%d" % i
        c["cmdline"] = False
    results, crashes = run_cases(vh, scratch, cs, workers=8, subcmd="ez")
    byid = {c["id"]: c for c in cs}
    out = []
    for cid, first, stderr in crashes:
        out.append(("process crashed in case %s: %s" % (cid, first), byid.get(cid)))
    for r in results:
        for m in r.get("mismatches") or []:
            if m["kind"] in ("prop", "panic"):
                out.append((m["detail"], byid.get(r["id"])))
    return out, len(cs), res.distinct


def run_check(pid, tier, replay=None):
    t0 = time.time()
    scratch = C.Scratch(pid)
    try:
        vh = C.build_harness(scratch)
        if replay:
            obj = json.load(open(replay))
            res, crashes = run_cases(vh, scratch, [obj["case"]], workers=1, subcmd="ez")
            bad = crashes or [m for r in res for m in (r.get("mismatches") or []) if m["kind"] in ("prop", "panic")]
            print("replay:", "reproduced" if bad else "not reproduced", (crashes or bad)[:1])
            if bad:
                print("VIOLATION property=%s replay=%s  (reproduced)" % (pid, replay))
            return 1 if bad else 0
        seed = C.seed()
        rng = random.Random(seed)
        quick = tier == "quick"
        runs, cases, states, trans = [], [], 0, 0
        # exhaustive: two leaves (the bad-able one and the required one), every provider pattern, one seeded format (quick) / all (thorough)
        fm = [rng.choice(FMTS)] if quick else FMTS
        d = scratch.sub("ezx")
        write_model(d, ["a", "r"], fm, 1)
        res = C.run_tlc(d, "MCEz", "E.cfg", workers=1, timeout=2400)
        if not res.ok:
            raise C.Inconclusive("Ez.tla violates its own properties (%s): specification alarm\n%s" % (res.violated, res.out[-1500:]))
        cs = parse_cases(res.out)
        states += res.distinct
        trans += res.generated
        runs.append({"leaves": ["a", "r"], "fmts": fm, "max_changes": 1, "distinct_states": res.distinct, "cases": len(cs), "exhaustive": True})
        cap = 6000 if quick else 10 ** 9
        if len(cs) > cap:
            cs = rng.sample(cs, cap)
            runs[-1]["cases_executed_sample"] = cap
        cases += cs
        # sampled: four leaves (nested one included), all formats, two later file changes
        d = scratch.sub("ezs")
        write_model(d, ["a", "c", "r", "m", "b"], FMTS, 2, alias_leaf="b", encs=("none", "kebab"))
        n = 2500 if quick else 40000
        res2 = C.run_tlc(d, "MCEz", "E.cfg", workers=1, timeout=2400,
                         extra=["-simulate", "num=%d" % n, "-depth", "12", "-seed", str(seed)])
        cs2 = parse_cases(res2.out)
        if not cs2:
            raise C.Inconclusive("TLC simulation of Ez.tla emitted no cases:\n" + res2.out[-1500:])
        runs.append({"leaves": ["a", "c", "r", "m", "b"], "alias_leaf": "b", "file_key_casings": ["none", "kebab"], "fmts": FMTS, "max_changes": 2, "simulated_behaviours": n, "cases": len(cs2), "exhaustive": False})
        cases += cs2
        selftest = {}
        for tog in ("BUG_EnvUnderFile", "BUG_VerifyIntermediate"):
            d = scratch.sub("ezt" + tog)
            write_model(d, ["a", "r"], ["json"], 0, (tog,), emit=False)
            r = C.run_tlc(d, "MCEz", "E.cfg", workers=4, timeout=600)
            selftest[tog] = r.violated
            if not r.violated:
                raise C.Inconclusive("self-test: toggle %s no longer violates anything" % tog)
        # dedupe by content
        seen, uniq = set(), []
        for c in cases:
            k = json.dumps(c, sort_keys=True)
            if k not in seen:
                seen.add(k)
                uniq.append(c)
        for i, c in enumerate(uniq):
            c["id"] = "e%d" % i
            c["cmdline"] = rng.random() < 0.3
        results, crashes = run_cases(vh, scratch, uniq, workers=12, subcmd="ez")
        byid = {c["id"]: c for c in uniq}
        violations, diverg = [], []
        for cid, first, stderr in crashes:
            rp = C.write_replay(pid, cid, {"property": pid, "kind": "ez", "case": byid.get(cid), "crash": stderr})
            violations.append(("process crashed while executing case %s: %s" % (cid, first), rp))
        for r in results:
            if len(violations) >= 30:
                break
            ms = r.get("mismatches") or []
            hard = [m for m in ms if m["kind"] in ("prop", "panic")]
            if hard:
                rp = C.write_replay(pid, r["id"], {"property": pid, "kind": "ez", "case": byid.get(r["id"]), "mismatches": ms})
                violations.append(("case %s: %s" % (r["id"], hard[0]["detail"][:200]), rp))
            elif ms:
                diverg.append({"id": r["id"], "mismatch": ms[0]})
        nontriv = sum(1 for c in uniq if c["path"] and any(len(v) >= 2 for v in c["prov"].values()))
        coverage = {
            "states": states, "transitions": trans, "traces_validated_against_impl": len(results),
            "samples": [uniq[len(uniq) // 3], uniq[-1]],
            "evaluations": len(uniq), "distinct_nontrivial": nontriv,
            "rule": "a case = providers per leaf (subset of default/file/env/flag) x config-path providers x file state x bad value x "
                    "format x watching (+ later file changes); non-trivial = a config path is set and at least one leaf has two or more "
                    "providers; distinct by content",
            "model_runs": runs, "toggle_selftest": selftest, "divergences": diverg[:5], "divergence_count": len(diverg),
            "with_file_changes": sum(1 for c in uniq if c["changes"]), "crashes": len(crashes),
            "checker_cmd": "tlc MCEz (exhaustive, 2 leaves) ; tlc -simulate MCEz (4 leaves) ; vh ez cases results",
        }
        C.write_evidence(pid, tier, "model_checking", coverage, time.time() - t0, len(violations),
                         ["file changes are atomic renames; convergence deadline 20 s per change (used up only when a change never shows)",
                          "environment variables are process-global: cases run sequentially inside each worker process"])
        for dv in diverg[:3]:
            print("DIVERGENCE case=%s %s" % (dv["id"], json.dumps(dv["mismatch"])[:200]))
        return C.finish(pid, violations[:20])
    finally:
        scratch.cleanup()
