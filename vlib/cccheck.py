"""C19: case conversion. TLC checks on spec/CaseConv.tla that the reference definitions of the six paired schemes are
inverse on every word list in the bound and emits each list with its reference encodings, and every identifier
assembled from a vocabulary of capitalised words and the complete initialisms list; the Go driver compares the real
encoders with the reference, checks Decode(Encode(ws)) = ws on the real code and DecodeGoCamelCase on the identifiers
whose segmentation over the vocabulary is unique."""
import json
import os
import random
import re
import time

from . import common as C
from .stackcheck import run_driver

INITIALISMS = ["ACL", "API", "ASCII", "CPU", "CSS", "DNS", "EOF", "GUID", "HTML", "HTTP", "HTTPS", "ID", "IP", "JSON", "LHS", "QPS", "RAM",
               "RHS", "RPC", "SLA", "SMTP", "SQL", "SSH", "TCP", "TLS", "TTL", "UDP", "UI", "UID", "UUID", "URI", "URL", "UTF8", "VM", "XML",
               "XMPP", "XSRF", "XSS"]
WORDS = ["User", "File", "Port", "Name", "Server", "Max", "Key", "Docs"]
PLURALS = ["IDs", "URLs", "IPs"]      # a pluralised initialism is one word; only meaningful at the end of an identifier


def write_cfg(d, maxwords, maxlen, letters, digits, vocab, maxitems, emit=True):
    C.copy_specs(d, ["CaseConv.tla"])
    q = lambda xs: "{%s}" % ", ".join('"%s"' % x for x in xs)
    lines = ["SPECIFICATION Spec", "CONSTANTS", "  MaxWords = %d" % maxwords, "  MaxLen = %d" % maxlen, "  Letters = " + q(letters),
             "  Digits = " + q(digits), "  Vocab = " + q(vocab), "  MaxItems = %d" % maxitems, "INVARIANT Invertible", "CHECK_DEADLOCK FALSE"]
    if emit:
        lines.append("CONSTRAINT Emit")
    open(os.path.join(d, "C.cfg"), "w").write("\n".join(lines) + "\n")


def cases_of(out):
    seen = set()
    for line in out.splitlines():
        if line.startswith('<<"CASE"'):
            js = line[line.index(",") + 1:].strip()
            seen.add(json.loads(js[:js.rindex(">>")].strip()))
    return [json.loads(c) for c in sorted(seen)]


def run_check(pid, tier, replay=None):
    t0 = time.time()
    scratch = C.Scratch(pid)
    try:
        vh = C.build_harness(scratch)
        if replay:
            obj = json.load(open(replay))
            recs, crashes, _ = run_driver(vh, scratch, "caseconv", [json.dumps(obj["case"])], workers=1)
            bad = crashes or [m for r in recs for m in r["mismatches"] if m["kind"] == "prop"]
            print("replay:", "reproduced" if bad else "not reproduced", (bad or [])[:1])
            if bad:
                print("VIOLATION property=%s replay=%s  (reproduced)" % (pid, replay))
            return 1 if bad else 0
        rng = random.Random(C.seed())
        quick = tier == "quick"
        vocab = INITIALISMS + WORDS if not quick else sorted(set(rng.sample(INITIALISMS, 14) + ["HTTP", "HTTPS", "UI", "UID", "ID", "UUID", "UTF8", "JSON"] + rng.sample(WORDS, 4) + rng.sample(PLURALS, 1)))
        if not quick:
            vocab = vocab + PLURALS
        d = scratch.sub("cc")
        write_cfg(d, 3, 3, ["a", "b"], ["1"], vocab, 3)   # (words of three characters: a digit inside a word, e.g. "a1b")
        res = C.run_tlc(d, "CaseConv", "C.cfg", timeout=3000)
        if not res.ok:
            raise C.Inconclusive("CaseConv.tla violates its own property (%s): specification alarm\n%s" % (res.violated, res.out[-1500:]))
        cases = cases_of(res.out)
        # identifiers with more than one segmentation over the vocabulary are not judged
        byname = {}
        for c in cases:
            if c["kind"] == "goident":
                byname.setdefault(c["name"], []).append(c)
        ambiguous = {n for n, cs in byname.items() if len(cs) > 1}
        todo = [c for c in cases if c["kind"] == "words" or
                (c["name"] not in ambiguous and not any(it in PLURALS for it in c["items"][:-1])
                 # a pluralised initialism is recognisable only directly after a capitalised word (UserIDs)
                 and not (c["items"][-1] in PLURALS and (len(c["items"]) < 2 or c["items"][-2] not in WORDS)))]
        for i, c in enumerate(todo):
            c["id"] = "cc%d" % i
        recs, crashes, executed = run_driver(vh, scratch, "caseconv", [json.dumps(c) for c in todo])
        byid = {c["id"]: c for c in todo}
        known = C.load_known()["findings"]
        violations, diverg, known_hits = [], 0, set()
        for cid, first, stderr, cf in crashes:
            rp = C.write_replay(pid, cid, {"property": pid, "kind": "caseconv", "crash": stderr})
            violations.append(("the driver process died: %s" % first, rp))
        for r in recs:
            hard = [m for m in r["mismatches"] if m["kind"] == "prop"]
            diverg += sum(1 for m in r["mismatches"] if m["kind"] == "model")
            if not hard:
                continue
            case = byid[r["id"]]
            kf = next((k for k in known if k["property"] == pid and case.get("name") and re.search(k["match"], case["name"])), None)
            if kf:
                known_hits.add("%s (e.g. %s)" % (kf["what"], case["name"]))
                continue
            if len(violations) < 30:
                rp = C.write_replay(pid, r["id"], {"property": pid, "kind": "caseconv", "case": case, "mismatches": r["mismatches"]})
                violations.append(("%s" % hard[0]["detail"][:220], rp))
        words = [c for c in todo if c["kind"] == "words"]
        idents = [c for c in todo if c["kind"] == "goident"]
        coverage = {
            "states": res.distinct, "transitions": res.generated, "traces_validated_against_impl": executed,
            "samples": [words[len(words) // 2], idents[len(idents) // 2]],
            "evaluations": executed, "distinct_nontrivial": sum(1 for c in words if len(c["words"]) >= 2) + sum(1 for c in idents if len(c["items"]) >= 2),
            "exhaustive": True,
            "rule": "all lists of 1-3 words of length 1-%d over {a, b, 1} (first character a letter) x six schemes; all identifiers of 1-3 items "
                    "from the vocabulary (initialisms + capitalised words) whose segmentation over the vocabulary is unique; non-trivial = "
                    "two or more words / items" % 3,
            "vocabulary": vocab, "ambiguous_identifiers_skipped": len(ambiguous), "encoder_divergences": diverg, "crashes": len(crashes),
            "checker_cmd": "tlc CaseConv (one initial state per case; CONSTRAINT Emit) ; vh caseconv cases results",
        }
        C.write_evidence(pid, tier, "exploration", coverage, time.time() - t0, len(violations),
                         ["non-ASCII letters are not enumerated", "the empty word list is excluded (no identifier has zero words)"])
        return C.finish(pid, violations, sorted(known_hits))
    finally:
        scratch.cleanup()
