"""C15: text parsing. TLC enumerates the case analysis of spec/Parse.tla (symbolic range literals per numeric kind /
boundary / offset / notation / context; scalars at their extremes; collections whose elements are drawn from character
classes) and checks the range rule's own sanity; the Go driver concretises and runs the real parsers and flag helpers."""
import json
import os
import random
import time

from . import common as C
from .stackcheck import run_driver

INTS = ["int", "int8", "int16", "int32", "int64"]
UINTS = ["uint", "uint8", "uint16", "uint32", "uint64"]
FLOATS = ["float32", "float64", "complex64", "complex128"]
FORMATS = ["dec", "hex", "oct", "bin", "sep", "ws", "fdot", "fexp"]
CLASSES = ["plain", "comma", "colon", "quote", "backslash", "space", "ctrl", "nonascii", "empty", "backquote"]


def q(xs):
    return "{%s}" % ", ".join('"%s"' % x for x in xs)


def run_check(pid, tier, replay=None):
    t0 = time.time()
    scratch = C.Scratch(pid)
    try:
        vh = C.build_harness(scratch)
        if replay:
            obj = json.load(open(replay))
            recs, crashes, _ = run_driver(vh, scratch, "parse", [json.dumps(obj["case"])], workers=1)
            bad = crashes or [m for r in recs for m in r["mismatches"] if m["kind"] == "prop"]
            print("replay:", "reproduced" if bad else "not reproduced", (bad or [])[:1])
            if bad:
                print("VIOLATION property=%s replay=%s  (reproduced)" % (pid, replay))
            return 1 if bad else 0
        seed = C.seed()
        rng = random.Random(seed)
        quick = tier == "quick"
        d = scratch.sub("parse")
        C.copy_specs(d, ["Parse.tla"])
        maxel = 3 if quick else 4
        lines = ["SPECIFICATION Spec", "CONSTANTS", "  IntKinds = " + q(INTS), "  UintKinds = " + q(UINTS), "  FloatKinds = " + q(FLOATS),
                 "  Formats = " + q(FORMATS), "  Classes = " + q(CLASSES), "  MaxElems = %d" % maxel, "  SampleN = 1",
                 "INVARIANT RuleSane", "CONSTRAINT Emit", "CHECK_DEADLOCK FALSE"]
        open(os.path.join(d, "P.cfg"), "w").write("\n".join(lines) + "\n")
        res = C.run_tlc(d, "Parse", "P.cfg", timeout=3000, extra=["-seed", str(seed)])
        if not res.ok:
            raise C.Inconclusive("Parse.tla violates its own sanity property (%s)\n%s" % (res.violated, res.out[-1500:]))
        seen = set()
        for line in res.out.splitlines():
            if line.startswith('<<"CASE"'):
                js = line[line.index(",") + 1:].strip()
                seen.add(json.loads(js[:js.rindex(">>")].strip()))
        cases = [json.loads(c) for c in sorted(seen)]
        todo = []
        for c in cases:
            reps = 1 if c["fam"] != "trip" else (2 if quick else 5)     # several members of each class
            for r in range(reps):
                cc = dict(c)
                cc["seed"] = rng.randrange(1000)
                cc["id"] = "p%d" % len(todo)
                todo.append(cc)
        recs, crashes, executed = run_driver(vh, scratch, "parse", [json.dumps(c) for c in todo])
        byid = {c["id"]: c for c in todo}
        violations = []
        for cid, first, stderr, cf in crashes:
            rp = C.write_replay(pid, cid, {"property": pid, "kind": "parse", "crash": stderr})
            violations.append(("the driver process died: %s" % first, rp))
        for r in recs:
            if len(violations) >= 30:
                break
            hard = [m for m in r["mismatches"] if m["kind"] == "prop"]
            if hard:
                rp = C.write_replay(pid, r["id"], {"property": pid, "kind": "parse", "case": byid[r["id"]], "mismatches": r["mismatches"]})
                violations.append((hard[0]["detail"][:240], rp))
        fam = {}
        for c in todo:
            fam[c["fam"]] = fam.get(c["fam"], 0) + 1
        coverage = {
            "evaluations": executed, "distinct_nontrivial": len(cases) - sum(1 for c in cases if c["fam"] == "trip" and len(c["elems"]) == 0),
            "rule": "range: every signed / unsigned width and both float widths x {Min, 0, Max} x offset {-1, 0, +1} x notation {decimal, hex, "
                    "octal, binary, digit separators, surrounding whitespace} x {parse.String, integral slice element}; scalars of every "
                    "supported kind at min / max / zero / one / negative / tiny (denormal) / infinity; slices, sets, string maps and "
                    "string-to-string-slice maps of up to %d elements over ten character classes, %d seeded members per position; "
                    "non-trivial = everything but the empty collection" % (maxel, 2 if quick else 5),
            "samples": [todo[0], next(c for c in todo if c["fam"] == "trip" and len(c["elems"]) >= 2), next(c for c in todo if c["fam"] == "scalar")],
            "states": res.distinct, "by_family": fam, "crashes": len(crashes), "exhaustive": True,
            "checker_cmd": "tlc Parse (one initial state per case; CONSTRAINT Emit) ; vh parse cases results",
        }
        C.write_evidence(pid, tier, "exploration", coverage, time.time() - t0, len(violations),
                         ["the numeric accuracy of float / complex parsing (rounding of arbitrary decimals) is not decided: only range boundaries, "
                          "extremes and round trips of canonical forms", "'all strings' is sampled through ten character classes, not enumerated"])
        return C.finish(pid, violations)
    finally:
        scratch.cleanup()
