"""C10-C14, C16: sources on top of the type manglers. TLC builds cases of spec/Sources.tla (field trees with names,
tags, source-specific tags, aliases, nesting; which leaves are supplied and under which name), checks that the
documented names are distinct and that an error is expected exactly for both-names-supplied, and emits every case
with the names as word lists; the Go driver renders names itself, feeds env / flag / pflag / the four decoders /
the bare transformer chains and labels every mismatch with the property it breaks."""
import json
import os
import random
import subprocess
import re
import time

from . import common as C
from .wrapcheck import run_cases

NAMES = [["pfx", "id"], ["http", "port"], ["peer", "ids"], ["json", "file"], ["max", "size"], ["api", "url"], ["timeout"], ["level"], ["mode"], ["tags"]]
TAGW = [["pfxuid"], ["listen", "port"], ["file", "path"], ["nick"], ["limit"], ["endpoint"], ["wait"], ["lvl"], ["mod"], ["labels"]]
ALIASW = [["old", "id"], ["old", "port"], ["old", "file"], ["old", "name"], ["old", "size"], ["old", "url"], ["old", "wait"], ["old", "lvl"], ["old", "mode"], ["old", "tags"]]
ALL_KINDS = ["int", "int8", "uint16", "str", "bool", "f64", "dur", "strs", "ints", "smap", "set", "time", "named", "durs", "structs", "f32", "c64",
             "nstrs", "nmap", "lnamed", "mnamed", "knamed", "pint", "pstrs", "pmap", "pdurs", "ncplx", "ip", "uptr", "nkset", "nkmss", "dkmap", "estructs"]
NARROW = ["int8", "uint16", "named", "f32", "c64"]   # (ncplx has no out-of-range pattern of its own)
GARBAGE = ["", " ", ",", ":", "\"", "\"unterminated", "`", "a,b:c", "{", "}", "[", "{\"a\":", "-", "--", "0x", "1e999", "99999999999999999999",
           "\x00", "\\", "a\nb", "é→", "k:v,k:w", "'", "=", "a=b", "true,false", "1,2,x"]

TAGS = {"C10": "C10", "C11": "C11", "C12": "C12", "C13": "C13", "C14": "C14", "C16": "C16"}


def seq(xs):
    return "<<%s>>" % ", ".join("<<%s>>" % ", ".join('"%s"' % w for w in x) for x in xs)


def q(xs):
    return "{%s}" % ", ".join('"%s"' % x for x in xs)


def write_model(d, kinds, styles, nests, maxtop, maxsub, alias, srctag, toggles=(), emit=True, sample=1, names=None):
    C.copy_specs(d, ["Sources.tla"])
    mod = ["---- MODULE MCSources ----", "EXTENDS Sources", "MCNames == " + seq(names or NAMES), "MCTagWords == " + seq(TAGW),
           "MCAliasWords == " + seq(ALIASW), "===="]
    open(os.path.join(d, "MCSources.tla"), "w").write("\n".join(mod) + "\n")
    lines = ["SPECIFICATION Spec", "CONSTANTS", "  Names <- MCNames", "  TagWords <- MCTagWords", "  AliasWords <- MCAliasWords",
             "  Kinds = " + q(kinds), "  TagStyles = " + q(styles), "  NestKinds = " + (q(nests) if nests else "{}"),
             "  MaxTop = %d" % maxtop, "  MaxSub = %d" % maxsub, "  AllowAlias = %s" % ("TRUE" if alias else "FALSE"),
             "  AllowSrcTag = %s" % ("TRUE" if srctag else "FALSE"), "  SampleN = %d" % sample,
             "  BUG_PrefixLost = %s" % ("TRUE" if "BUG_PrefixLost" in toggles else "FALSE"),
             "INVARIANTS NamesDistinct ErrorIffBoth", "CHECK_DEADLOCK FALSE"]
    if emit:
        lines.append("CONSTRAINT Emit")
    open(os.path.join(d, "S.cfg"), "w").write("\n".join(lines) + "\n")


def cases_of(out):
    seen = set()
    for line in out.splitlines():
        if line.startswith('<<"CASE"'):
            js = line[line.index(",") + 1:].strip()
            seen.add(json.loads(js[:js.rindex(">>")].strip()))
    return [json.loads(c) for c in sorted(seen)]


def adjacent_one_letter_words(case):
    return any(len(a) == 1 and len(b) == 1 for l in case["expect"]["leaves"] for a, b in zip(l["env"], l["env"][1:]))


def known_match(known, pid, mis, case):
    for k in known:
        if k.get("case_pred") == "adjacent_one_letter_words" and not adjacent_one_letter_words(case):
            continue
        if k["property"] == pid and re.search(k["match"], mis["detail"]) and (not k.get("src") or k["src"] == mis.get("src")) and (not k.get("kind") or any(l["kind"] == k["kind"] for l in case["expect"]["leaves"])):
            return k
    return None


def run_check(pid, tier, replay=None):
    t0 = time.time()
    scratch = C.Scratch(pid)
    try:
        vh = C.build_harness(scratch)
        if replay:
            obj = json.load(open(replay))
            if obj.get("kind") == "ez":
                res, crashes = run_cases(vh, scratch, [obj["case"]], workers=1, subcmd="ez")
                bad = crashes or [m for r in res for m in (r.get("mismatches") or []) if m["kind"] in ("prop", "panic")]
            elif obj.get("kind") == "caseconv":
                cf, rf = scratch.path("ident-cases"), scratch.path("ident-results")
                open(cf, "w").write(json.dumps(obj["case"]) + "\n")
                p = subprocess.run([vh, "caseconv", cf, rf], capture_output=True, text=True, timeout=600)
                bad = p.returncode != 0 or [1 for line in open(rf) if json.loads(line).get("mismatches")]
                res, crashes = [], []
            else:
                res, crashes = run_cases(vh, scratch, [obj["case"]], workers=1, subcmd="sources")
                bad = crashes or [m for r in res for m in (r.get("mismatches") or []) if m["prop"] == pid]
            print("replay:", "reproduced" if bad else "not reproduced", (bad or [])[:1])
            if bad:
                print("VIOLATION property=%s replay=%s  (reproduced)" % (pid, replay))
            return 1 if bad else 0
        seed = C.seed()
        rng = random.Random(seed)
        quick = tier == "quick"
        runs, cases, states, trans = [], [], 0, 0
        # (a) exhaustive small universe: one top-level leaf or one struct with one leaf, every kind / tag style / alias pattern
        d = scratch.sub("srcx")
        write_model(d, ALL_KINDS, ["none", "snake", "camel", "kebab", "upper"], ["struct", "pstruct", "emb"], 1, 1, True, True)
        res = C.run_tlc(d, "MCSources", "S.cfg", timeout=3000)
        if not res.ok:
            raise C.Inconclusive("Sources.tla violates its own properties (%s): specification alarm\n%s" % (res.violated, res.out[-1500:]))
        cs = cases_of(res.out)
        states += res.distinct
        trans += res.generated
        runs.append({"universe": "1 top-level field, all kinds / tag styles / nest kinds / alias patterns", "distinct_states": res.distinct, "cases": len(cs), "exhaustive": True})
        cases += cs
        # (b) two top-level fields (leaf or struct with one leaf) over seeded kinds / styles / nest kinds
        kinds = rng.sample(ALL_KINDS, 3 if quick else 10)
        if not set(kinds) & set(NARROW):
            kinds[0] = rng.choice(NARROW)       # an out-of-range literal next to other supplied leaves is always in the sample
        styles = ["none"] + rng.sample(["snake", "camel", "kebab", "upper"], 2)
        nests = rng.sample(["struct", "pstruct", "emb"], 2)
        d = scratch.sub("srcs")
        if not quick:
            styles, nests = ["none", "snake", "camel", "kebab", "upper"], ["struct", "pstruct", "emb"]
        # measured (thorough): ~17M states in under 3 minutes, one done state in 150 is emitted (~55k cases)
        write_model(d, kinds, styles, nests, 2, 1, True, True, sample=3 if quick else 150)
        res2 = C.run_tlc(d, "MCSources", "S.cfg", timeout=3000, extra=["-seed", str(seed)])
        if not res2.ok:
            raise C.Inconclusive("Sources.tla violates its own properties (%s): specification alarm\n%s" % (res2.violated, res2.out[-1500:]))
        cs2 = cases_of(res2.out)
        states += res2.distinct
        trans += res2.generated
        runs.append({"universe": "2 top-level fields over kinds %s, styles %s, nests %s" % (kinds, styles, nests), "distinct_states": res2.distinct,
                     "cases": len(cs2), "emitted_one_in": 3 if quick else 150})
        cases += cs2
        # (c) one struct with two leaves
        d = scratch.sub("srcn")
        write_model(d, kinds[:8] if not quick else kinds, ["none", "snake"], ["struct", "pstruct", "emb"], 1, 4, True, False)
        res3 = C.run_tlc(d, "MCSources", "S.cfg", timeout=3000)
        cs3 = [c for c in cases_of(res3.out) if c["fields"][0]["nest"]]
        states += res3.distinct
        trans += res3.generated
        runs.append({"universe": "one nested struct with two leaves over kinds %s" % kinds[:8], "distinct_states": res3.distinct, "cases": len(cs3), "exhaustive": True})
        cases += cs3
        if not quick:
            # (e) three top-level fields (leaf or struct with one leaf), no aliases, four kinds: ~640k states, one case in ten
            d = scratch.sub("srce")
            write_model(d, kinds[:4], ["none", "snake"], ["struct"], 3, 1, False, False, sample=10)
            res5 = C.run_tlc(d, "MCSources", "S.cfg", timeout=3000, extra=["-seed", str(seed)])
            cs5 = cases_of(res5.out)
            states += res5.distinct
            trans += res5.generated
            runs.append({"universe": "3 top-level fields over kinds %s" % kinds[:4], "distinct_states": res5.distinct, "cases": len(cs5), "emitted_one_in": 10})
            cases += cs5
        if pid == "C11":
            # (d) one-letter field names on nested paths (N.M): the documented variable is N_M
            d = scratch.sub("srcd")
            write_model(d, ["int", "str"], ["none"], ["struct", "pstruct"], 1, 1, False, False, names=[["n"], ["m"], ["k"]])
            res4 = C.run_tlc(d, "MCSources", "S.cfg", timeout=3000)
            cs4 = [c for c in cases_of(res4.out) if c["fields"][0]["nest"]]
            states += res4.distinct
            trans += res4.generated
            runs.append({"universe": "one struct with one leaf, one-letter field names", "distinct_states": res4.distinct, "cases": len(cs4), "exhaustive": True})
            cases += cs4
        if pid == "C11":
            # (f) field names and tags with non-ASCII lower-case letters (CaféTable -> CAFÉ_TABLE): TLA+ strings are ASCII, so the
            # model runs over placeholder words which are replaced in the emitted cases
            d = scratch.sub("srcf")
            write_model(d, ["int", "strs"], ["none", "snake"], ["struct", "pstruct"], 1, 1, False, False,
                        names=[["cafe", "table"], ["senal"], ["salon"]])
            res6 = C.run_tlc(d, "MCSources", "S.cfg", timeout=3000)
            sub = {"cafe": "caf\u00e9", "senal": "se\u00f1al", "salon": "sal\u00f3n"}

            def nonascii(x):
                if isinstance(x, str):
                    return sub.get(x, x)
                if isinstance(x, list):
                    return [nonascii(y) for y in x]
                if isinstance(x, dict):
                    return {k: nonascii(v) for k, v in x.items()}
                return x
            cs6 = [nonascii(c) for c in cases_of(res6.out)]
            states += res6.distinct
            trans += res6.generated
            runs.append({"universe": "one field or one struct with one leaf, names with non-ASCII letters", "distinct_states": res6.distinct, "cases": len(cs6), "exhaustive": True})
            cases += cs6
        todo = []
        for c in cases:
            c["seed"] = rng.randrange(1000)
            c["garbage"] = ""
            c["id"] = "s%d" % len(todo)
            todo.append(c)
        if pid == "C16":
            # totality: every supplied value replaced by garbage text, every case
            extra = []
            for c in rng.sample(cases, min(len(cases), 1500 if quick else 20000)):
                g = dict(c)
                g["garbage"] = rng.choice(GARBAGE)
                g["id"] = "g%d" % len(extra)
                extra.append(g)
            todo += extra
        ident_viol, ident_n = [], 0
        if pid == "C16":
            # identifiers to case-convert: every text of up to 4 (quick) / 5 (thorough) characters over an alphabet of the character
            # classes the decoders distinguish, through every decoder and, when accepted, every encoder
            import itertools
            alpha = ["a", "B", "1", "_", "-", " ", "\u00e9"] if quick else ["a", "b", "B", "Z", "1", "_", "-", " ", "\u00e9", "."]
            texts = [""] + ["".join(t) for n in range(1, 5 if quick else 6) for t in itertools.product(alpha, repeat=n)]
            texts += ["HTTP", "ID_", "_ID", "a__b", "A-", "--", "UTF8", "uTF8x", "JSONs", "IDs", "aID", "aIDs9"]
            cf, rf = scratch.path("ident-cases"), scratch.path("ident-results")
            with open(cf, "w") as f:
                for i, t in enumerate(texts):
                    f.write(json.dumps({"id": "i%d" % i, "kind": "total", "name": t}) + "\n")
            p = subprocess.run([vh, "caseconv", cf, rf], capture_output=True, text=True, timeout=1500)
            if p.returncode != 0:
                first = next((l for l in p.stderr.splitlines() if l.startswith(("panic:", "fatal error:"))), p.stderr[:200])
                ident_viol.append(("case conversion driver died: %s" % first, {"stderr": p.stderr[-1500:]}))
            else:
                for line in open(rf):
                    r = json.loads(line)
                    if r.get("final"):
                        ident_n = r["cases"]
                    elif r.get("mismatches"):
                        ident_viol.append((r["mismatches"][0]["detail"][:220], {"id": r["id"], "kind": "total", "name": texts[int(r["id"][1:])]}))
        results, crashes = run_cases(vh, scratch, todo, workers=12, subcmd="sources")
        byid = {c["id"]: c for c in todo}
        known = C.load_known()["findings"]
        violations, known_hits, other = [], set(), {}
        ez_alias = None
        if pid == "C14":
            # "files read through alias-wrapped decoders as ez does": through the real ez entry points (Ez.tla cases in which the
            # file writes the aliased leaf under its alias, with and without a FileFieldNameEncoder)
            from . import ezcheck
            bad, n_ez, ez_states = ezcheck.alias_cases(vh, scratch, seed, quick)
            ez_alias = {"cases": n_ez, "distinct_states": ez_states, "mismatches": len(bad)}
            for detail, case in bad[:10]:
                rp = C.write_replay(pid, "ez-%d" % len(violations), {"property": pid, "kind": "ez", "case": case, "detail": detail})
                violations.append(("ez case %s: %s" % ((case or {}).get("id"), detail[:200]), rp))
        for what, case in ident_viol[:10]:
            rp = C.write_replay(pid, "ident-%d" % len(violations), {"property": pid, "kind": "caseconv", "case": case})
            violations.append((what, rp))
        for cid, first, stderr in crashes:
            if pid == "C16":
                rp = C.write_replay(pid, cid, {"property": pid, "kind": "sources", "case": byid.get(cid), "crash": stderr[-2000:]})
                violations.append(("case %s killed the process: %s" % (cid, first), rp))
        for r in results:
            ms = r.get("mismatches") or []
            for m in ms:
                other[m["prop"]] = other.get(m["prop"], 0) + 1
            mine = [m for m in ms if m["prop"] == pid]
            if not mine:
                continue
            case = byid[r["id"]]
            unknown = []
            for m in mine:
                k = known_match(known, pid, m, case)
                if k:
                    known_hits.add(k["what"])
                else:
                    unknown.append(m)
            if unknown and len(violations) < 30:
                rp = C.write_replay(pid, r["id"], {"property": pid, "kind": "sources", "case": case, "mismatches": ms})
                violations.append(("case %s [%s]: %s" % (r["id"], unknown[0]["src"], unknown[0]["detail"][:220]), rp))
        nontriv = sum(1 for c in cases if sum(1 for l in c["expect"]["leaves"] if l["set"]) >= 1 and len(c["expect"]["leaves"]) >= 2)
        coverage = {
            "states": states, "transitions": trans, "traces_validated_against_impl": len(todo),
            "samples": [cases[len(cases) // 3], cases[-1]],
            "evaluations": len(todo), "distinct_nontrivial": nontriv,
            "rule": "case = field tree (leaf kinds %s; names, dials tags in four casings, source-specific tags, aliases; nested / pointer / "
                    "embedded structs) + which leaves are supplied and under which name; each case run through env, flag, pflag, the four "
                    "decoders wrapped as ez wraps them, and the bare transformer chains; non-trivial = at least two leaves and at least one "
                    "supplied; distinct by content" % ", ".join(ALL_KINDS),
            "model_runs": runs, "mismatches_by_property": other, "crashes": len(crashes), "identifier_texts_swept": ident_n, "through_ez": ez_alias,
            "checker_cmd": "tlc MCSources (exhaustive small universe) ; tlc -simulate MCSources ; vh sources cases results",
        }
        level = "exploration" if pid == "C16" else "model_checking"
        C.write_evidence(pid, tier, level, coverage, time.time() - t0, len(violations),
                         ["names are rendered by the harness from the model's word lists, not by tagformat/caseconversion",
                          "decoders are only compared on cases where every field carries a dials tag (the property's scope)"])
        return C.finish(pid, violations, sorted(known_hits))
    finally:
        scratch.cleanup()
