package main

// Stack driver (C01, C02): materialises the abstract cases emitted by TLC from
// spec/Stack.tla as real Go types (reflect.StructOf), runs the real compose
// (dials.VerifCompose) and judges the result by the property statements:
// last setter wins per leaf / skipped fields keep their default (C01); no
// shared mutable memory, inputs unmodified, same inputs -> equal but disjoint
// results (C02).

import (
	"bufio"
	"encoding/json"
	"fmt"
	"os"
	"reflect"
	"runtime"
	"strings"
	"time"

	"github.com/vimeo/dials"
	"github.com/vimeo/dials/ptrify"
)

type sField struct {
	K   string   `json:"k"`
	Sub []sField `json:"sub"`
}

type sVal struct {
	T string `json:"t"`
	V int    `json:"v"`
	F []sVal `json:"f"`
}

type sCase struct {
	ID       string   `json:"id"`
	Shape    []sField `json:"shape"`
	Defaults []sVal   `json:"defaults"`
	Layers   [][]sVal `json:"layers"`
	Wants    [][]sVal `json:"wants"`
}

var (
	tInt   = reflect.TypeOf(0)
	tStr   = reflect.TypeOf("")
	tDur   = reflect.TypeOf(time.Duration(0))
	tTime  = reflect.TypeOf(time.Time{})
	tSlice = reflect.TypeOf([]int(nil))
	tMap   = reflect.TypeOf(map[string]int(nil))
	tArr   = reflect.TypeOf([2]int{})
	tPInt  = reflect.TypeOf((*int)(nil))
	tChan  = reflect.TypeOf((chan int)(nil))
	tFunc  = reflect.TypeOf((func())(nil))
)

var sTypeCache = map[string]reflect.Type{}

func sKey(shape []sField) string {
	b, _ := json.Marshal(shape)
	return string(b)
}

func sType(shape []sField) reflect.Type {
	key := sKey(shape)
	if t, ok := sTypeCache[key]; ok {
		return t
	}
	var fs []reflect.StructField
	for i, f := range shape {
		sf := reflect.StructField{Name: fmt.Sprintf("F%d", i)}
		switch f.K {
		case "int":
			sf.Type = tInt
		case "str":
			sf.Type = tStr
		case "dur":
			sf.Type = tDur
		case "time":
			sf.Type = tTime
		case "slice":
			sf.Type = tSlice
		case "map":
			sf.Type = tMap
		case "arr":
			sf.Type = tArr
		case "pint":
			sf.Type = tPInt
		case "parr":
			sf.Type = reflect.TypeOf([2]*int{})
		case "pkmap":
			sf.Type = reflect.TypeOf(map[*int]int{})
		case "mmap":
			sf.Type = reflect.TypeOf(map[string]map[string]int{})
		case "pslice":
			sf.Type = reflect.TypeOf((*[]int)(nil))
		case "dash":
			sf.Type = tInt
			sf.Tag = `dials:"-"`
		case "dashref":
			sf.Type = tMap
			sf.Tag = `dials:"-"`
		case "chan":
			sf.Type = tChan
		case "func":
			sf.Type = tFunc
		case "unexp":
			sf.Type = tInt
			sf.Name = fmt.Sprintf("u%d", i)
			sf.PkgPath = "main"
		case "struct":
			sf.Type = sType(f.Sub)
		case "pstruct":
			sf.Type = reflect.PtrTo(sType(f.Sub))
		case "emb":
			sf.Type = sType(f.Sub)
			sf.Anonymous = true
			sf.Name = fmt.Sprintf("Emb%d", i)
		default:
			panic("harness: unknown kind " + f.K)
		}
		fs = append(fs, sf)
	}
	t := reflect.StructOf(fs)
	sTypeCache[key] = t
	return t
}

var sSalt int // varies from case to case, so that reused addresses hold different contents

type arenaKey struct {
	kind    string
	id, idx int
}

var (
	arenaInts   = map[arenaKey]*int{}
	arenaMaps   = map[arenaKey]map[string]int{}
	arenaSlices = map[arenaKey][]int{}
	useArena    bool
)

// concrete value for leaf number idx given by layer id (0 = the caller's default)
func sLeaf(kind string, id, idx int) reflect.Value {
	n := 100*id + idx + 1 + 1000*sSalt
	if useArena {
		// layer values live in memory that is reused from case to case (as a source reusing its buffers would)
		k := arenaKey{kind, id, idx}
		switch kind {
		case "pint":
			p, ok := arenaInts[k]
			if !ok {
				p = new(int)
				arenaInts[k] = p
			}
			*p = n
			return reflect.ValueOf(p)
		case "parr":
			var a [2]*int
			for j := range a {
				kk := arenaKey{kind, id, idx*2 + j}
				p, ok := arenaInts[kk]
				if !ok {
					p = new(int)
					arenaInts[kk] = p
				}
				*p = n + j
				a[j] = p
			}
			return reflect.ValueOf(a)
		case "pkmap":
			p, ok := arenaInts[k]
			if !ok {
				p = new(int)
				arenaInts[k] = p
			}
			*p = n
			return reflect.ValueOf(map[*int]int{p: n})
		case "map", "dashref":
			m, ok := arenaMaps[k]
			if !ok {
				m = map[string]int{}
				arenaMaps[k] = m
			}
			for kk := range m {
				delete(m, kk)
			}
			m[fmt.Sprintf("k%d", n)] = n
			return reflect.ValueOf(m)
		case "slice":
			sl, ok := arenaSlices[k]
			if !ok {
				sl = make([]int, 2)
				arenaSlices[k] = sl
			}
			sl[0], sl[1] = n, n+1
			return reflect.ValueOf(sl)
		}
	}
	switch kind {
	case "int", "dash", "unexp":
		return reflect.ValueOf(n)
	case "str":
		return reflect.ValueOf(fmt.Sprintf("s%d", n))
	case "dur":
		return reflect.ValueOf(time.Duration(n) * time.Second)
	case "time":
		return reflect.ValueOf(time.Unix(int64(1000000+n), 0).UTC())
	case "slice":
		return reflect.ValueOf([]int{n, n + 1})
	case "map", "dashref":
		return reflect.ValueOf(map[string]int{fmt.Sprintf("k%d", n): n})
	case "arr":
		return reflect.ValueOf([2]int{n, -n})
	case "pint":
		v := n
		return reflect.ValueOf(&v)
	case "parr":
		v, w := n, n+1
		return reflect.ValueOf([2]*int{&v, &w})
	case "pkmap":
		v := n
		return reflect.ValueOf(map[*int]int{&v: n})
	case "pslice":
		v := []int{n, n + 1}
		return reflect.ValueOf(&v)
	case "mmap": // two entries of the outer map hold the very same inner map
		inner := map[string]int{fmt.Sprintf("k%d", n): n}
		return reflect.ValueOf(map[string]map[string]int{"a": inner, "b": inner, "c": {"x": n + 1}})
	}
	panic("harness: no leaf value for " + kind)
}

type sCtx struct {
	chans map[string]reflect.Value // identity of skipped chan / func defaults
	leaf  int
}

// fillBase writes abstract value v (over shape) into the struct value out (of sType(shape)).
func (c *sCtx) fillBase(shape []sField, vals []sVal, out reflect.Value, path string) {
	for i, f := range shape {
		v := vals[i]
		fld := out.Field(i)
		p := fmt.Sprintf("%s.%d", path, i)
		c.leaf++
		idx := c.leaf
		switch f.K {
		case "struct", "emb":
			c.fillBase(f.Sub, v.F, fld, p)
		case "pstruct":
			if v.T == "st" {
				n := reflect.New(fld.Type().Elem())
				c.fillBase(f.Sub, v.F, n.Elem(), p)
				fld.Set(n)
			} else {
				c.skipLeaves(f.Sub)
			}
		case "chan":
			if v.T != "zero" {
				ch := reflect.MakeChan(tChan, 1)
				c.chans[p] = ch
				fld.Set(ch)
			}
		case "func":
			if v.T != "zero" {
				fn := reflect.ValueOf(func() {})
				c.chans[p] = fn
				fld.Set(fn)
			}
		case "unexp":
			// cannot be set through reflection; stays zero (and must stay zero)
		default:
			switch v.T {
			case "id":
				fld.Set(sLeaf(f.K, v.V, idx))
			case "keep":
				if f.K == "dash" || f.K == "dashref" {
					fld.Set(sLeaf(f.K, 0, idx))
				}
			case "empty":
				if f.K == "slice" {
					fld.Set(reflect.MakeSlice(tSlice, 0, 4))
				} else {
					fld.Set(reflect.MakeMap(fld.Type()))
				}
			}
		}
	}
}

// fillLayer writes the layer value (aligned with the pointerified type pt) into out.
func (c *sCtx) fillLayer(shape []sField, vals []sVal, out reflect.Value) {
	j := 0
	for _, f := range shape {
		c.leaf++
		idx := c.leaf
		switch f.K {
		case "dash", "dashref", "chan", "func", "unexp":
			c.skipCount(f)
			continue
		}
		v := vals[j]
		fld := out.Field(j)
		j++
		switch f.K {
		case "struct", "emb", "pstruct":
			if v.T == "st" {
				n := reflect.New(fld.Type().Elem())
				c.fillLayer(f.Sub, v.F, n.Elem())
				fld.Set(n)
			} else {
				c.skipLeaves(f.Sub)
			}
		default:
			switch v.T {
			case "id":
				lv := sLeaf(f.K, v.V, idx)
				if fld.Kind() == reflect.Ptr && lv.Kind() != reflect.Ptr {
					p := reflect.New(lv.Type())
					p.Elem().Set(lv)
					fld.Set(p)
				} else {
					fld.Set(lv)
				}
			case "empty":
				if f.K == "slice" {
					fld.Set(reflect.MakeSlice(tSlice, 0, 4))
				} else {
					fld.Set(reflect.MakeMap(fld.Type()))
				}
			case "szero":
				// explicitly set to the zero value: a non-nil pointer to it
				fld.Set(reflect.New(fld.Type().Elem()))
			}
		}
	}
}

func (c *sCtx) skipCount(f sField) {}

func (c *sCtx) skipLeaves(shape []sField) {
	for _, f := range shape {
		c.leaf++
		if f.Sub != nil {
			c.skipLeaves(f.Sub)
		}
	}
}

// check compares the real result with the abstract expectation, leaf by leaf.
func (c *sCtx) check(shape []sField, want []sVal, got reflect.Value, path string, out *[]string) {
	for i, f := range shape {
		w := want[i]
		fld := got.Field(i)
		p := fmt.Sprintf("%s.%d", path, i)
		c.leaf++
		idx := c.leaf
		bad := func(msg string) {
			*out = append(*out, fmt.Sprintf("field %s (%s): %s", p, f.K, msg))
		}
		switch f.K {
		case "struct", "emb":
			c.check(f.Sub, w.F, fld, p, out)
		case "pstruct":
			if w.T == "nil" {
				if !fld.IsNil() {
					bad("expected a nil pointer (no layer set anything below it)")
				}
				c.skipLeaves(f.Sub)
			} else if fld.IsNil() {
				bad("expected a struct, got nil")
				c.skipLeaves(f.Sub)
			} else {
				c.check(f.Sub, w.F, fld.Elem(), p, out)
			}
		case "chan", "func":
			def, has := c.chans[p]
			if has {
				if fld.IsNil() || fld.Pointer() != def.Pointer() {
					bad("skipped field lost its default")
				}
			} else if !fld.IsNil() {
				bad("skipped field was nil by default and is not any more")
			}
		case "unexp":
			// not observable through reflection without unsafe; covered by the static corpus
		default:
			switch w.T {
			case "nil":
				if !fld.IsNil() {
					bad(fmt.Sprintf("expected nil (unset everywhere), got %v", fld.Interface()))
				}
			case "zero":
				if !fld.IsZero() {
					bad(fmt.Sprintf("expected the zero default, got %v", fld.Interface()))
				}
			case "szero":
				if !fld.IsZero() {
					bad(fmt.Sprintf("expected the zero value that layer %d set explicitly, got %v", w.V, fld.Interface()))
				}
			case "keep":
				exp := sLeaf(f.K, 0, idx)
				if !sameLeaf(fld.Interface(), exp.Interface()) {
					bad(fmt.Sprintf("skipped field: expected its default %v, got %v", exp.Interface(), fld.Interface()))
				}
			case "empty":
				if fld.IsNil() || fld.Len() != 0 {
					bad(fmt.Sprintf("expected the empty (non-nil) value set by layer %d, got %v (nil=%v)", w.V, fld.Interface(), fld.IsNil()))
				}
			case "id":
				exp := sLeaf(f.K, w.V, idx)
				if !sameLeaf(fld.Interface(), exp.Interface()) {
					who := "the default"
					if w.V > 0 {
						who = fmt.Sprintf("layer %d (the last to set it)", w.V)
					}
					bad(fmt.Sprintf("expected the value of %s, %v; got %v", who, show(exp), show(fld)))
				}
			default:
				bad("model predicts " + w.T)
			}
		}
	}
}

// sameLeaf is DeepEqual, except that maps keyed by pointers are compared by what the keys point to
func sameLeaf(a, b interface{}) bool {
	ma, ok1 := a.(map[*int]int)
	mb, ok2 := b.(map[*int]int)
	if !ok1 || !ok2 {
		return reflect.DeepEqual(a, b)
	}
	if (ma == nil) != (mb == nil) || len(ma) != len(mb) {
		return false
	}
	flat := func(m map[*int]int) map[int]int {
		o := map[int]int{}
		for k, v := range m {
			if k != nil {
				o[*k] = v
			}
		}
		return o
	}
	return reflect.DeepEqual(flat(ma), flat(mb))
}

func show(v reflect.Value) string {
	if v.Kind() == reflect.Ptr && !v.IsNil() {
		return fmt.Sprintf("&%v", v.Elem().Interface())
	}
	return fmt.Sprintf("%v", v.Interface())
}

// reach collects the addresses of mutable memory reachable through exported fields.
func reach(v reflect.Value, set map[uintptr]string, path string) {
	switch v.Kind() {
	case reflect.Ptr:
		if v.IsNil() {
			return
		}
		if v.Type().Elem().Size() > 0 {
			set[v.Pointer()] = path
		}
		reach(v.Elem(), set, path+"*")
	case reflect.Map:
		if v.IsNil() {
			return
		}
		set[v.Pointer()] = path
		it := v.MapRange()
		for it.Next() {
			reach(it.Key(), set, path+"[key]")
			reach(it.Value(), set, path+"[]")
		}
	case reflect.Slice:
		if v.IsNil() || v.Cap() == 0 {
			return
		}
		set[v.Pointer()] = path
		for i := 0; i < v.Len(); i++ {
			reach(v.Index(i), set, path+"[]")
		}
	case reflect.Array:
		for i := 0; i < v.Len(); i++ {
			reach(v.Index(i), set, path+"[]")
		}
	case reflect.Struct:
		if v.Type() == tTime {
			return // opaque (its pointer is reachable only through an unexported field)
		}
		for i := 0; i < v.NumField(); i++ {
			if v.Type().Field(i).PkgPath != "" {
				continue
			}
			reach(v.Field(i), set, fmt.Sprintf("%s.%s", path, v.Type().Field(i).Name))
		}
	case reflect.Interface:
		if !v.IsNil() {
			reach(v.Elem(), set, path)
		}
	}
}

func overlap(a, b map[uintptr]string) (string, bool) {
	for k, pa := range a {
		if pb, ok := b[k]; ok {
			return pa + " <-> " + pb, true
		}
	}
	return "", false
}

type sMis struct {
	Prop   string `json:"prop"` // C01 | C02 | C16 (panic)
	Prefix int    `json:"prefix"`
	Detail string `json:"detail"`
}

func runStackCase(c sCase) (mis []sMis) {
	prefix := -1
	defer func() {
		if r := recover(); r != nil {
			mis = append(mis, sMis{"C01", prefix, fmt.Sprint("panic: ", r)})
		}
	}()
	t := sType(c.Shape)
	ctx := &sCtx{chans: map[string]reflect.Value{}}
	sSalt = (sSalt + 1) % 7
	build := func(arena bool) (reflect.Value, []reflect.Value) {
		useArena = arena
		defer func() { useArena = false }()
		ctx.leaf = 0
		dp := reflect.New(t)
		ctx.fillBase(c.Shape, c.Defaults, dp.Elem(), "")
		ptt := ptrify.Pointerify(t, dp.Elem())
		var ls []reflect.Value
		for _, l := range c.Layers {
			ctx.leaf = 0
			cp := reflect.New(ptt).Elem()
			ctx.fillLayer(c.Shape, l, cp)
			ls = append(ls, cp)
		}
		return dp, ls
	}
	// the inputs are built twice from the abstract description: the second build is the snapshot they are compared
	// with afterwards (C02: inputs are never modified); only the first lives in the reused arena
	chans0 := ctx.chans
	snapDef, snapLayers := build(false)
	ctx.chans = chans0
	for k := range ctx.chans {
		delete(ctx.chans, k)
	}
	defPtr, layers := build(true)
	inputs := map[uintptr]string{}
	reach(defPtr, inputs, "defaults")
	for i, l := range layers {
		reach(l, inputs, fmt.Sprintf("layer%d", i+1))
	}
	var prev map[uintptr]string
	var alive []interface{} // address sets are only meaningful while the objects they were taken from are reachable
	defer func() { runtime.KeepAlive(alive) }()
	// the full stack first, then every shorter prefix with the same defaults object (re-stacking history)
	for n := len(layers); n >= 0; n-- {
		prefix = n
		res, err := dials.VerifCompose(defPtr.Interface(), layers[:n])
		if err != nil {
			mis = append(mis, sMis{"C01", n, "compose failed: " + err.Error()})
			continue
		}
		alive = append(alive, res)
		rv := reflect.ValueOf(res)
		var diffs []string
		ctx.leaf = 0
		ctx.check(c.Shape, c.Wants[n], rv.Elem(), "", &diffs)
		for _, d := range diffs {
			mis = append(mis, sMis{"C01", n, d})
		}
		got := map[uintptr]string{}
		reach(rv, got, "result")
		if w, bad := overlap(got, inputs); bad {
			mis = append(mis, sMis{"C02", n, "the stacked config shares memory with an input: " + w})
		}
		if prev != nil {
			if w, bad := overlap(got, prev); bad {
				mis = append(mis, sMis{"C02", n, "two config versions share memory: " + w})
			}
		}
		prev = got
		if n == len(layers) {
			// same inputs stacked twice: deeply equal, disjoint
			res2, err2 := dials.VerifCompose(defPtr.Interface(), layers[:n])
			if err2 == nil {
				alive = append(alive, res2)
				if !reflect.DeepEqual(canon(reflect.ValueOf(res)), canon(reflect.ValueOf(res2))) {
					mis = append(mis, sMis{"C02", n, "stacking the same inputs twice gave different results"})
				}
				g2 := map[uintptr]string{}
				reach(reflect.ValueOf(res2), g2, "result2")
				if w, bad := overlap(got, g2); bad {
					mis = append(mis, sMis{"C02", n, "stacking the same inputs twice gave results that share memory: " + w})
				}
			}
		}
	}
	// inputs unchanged
	if !reflect.DeepEqual(canon(defPtr), canon(snapDef)) {
		mis = append(mis, sMis{"C02", 0, "the caller's defaults were modified by stacking"})
	}
	for i, l := range layers {
		if !reflect.DeepEqual(canon(l), canon(snapLayers[i])) {
			mis = append(mis, sMis{"C02", i + 1, fmt.Sprintf("the value of source %d was modified by stacking", i+1)})
		}
	}
	return mis
}

// canon turns a value into plain nested data that DeepEqual can compare by content: pointers are followed (also when they
// are map keys), chan and func values (never comparable by content) only keep their nil-ness.
func canon(v reflect.Value) interface{} {
	if !v.IsValid() {
		return nil
	}
	switch v.Kind() {
	case reflect.Ptr, reflect.Interface:
		if v.IsNil() {
			return nil
		}
		return []interface{}{"ref", canon(v.Elem())}
	case reflect.Struct:
		if v.Type() == tTime {
			return v.Interface().(time.Time).UnixNano()
		}
		out := make([]interface{}, 0, v.NumField())
		for i := 0; i < v.NumField(); i++ {
			if v.Type().Field(i).PkgPath != "" {
				continue
			}
			out = append(out, canon(v.Field(i)))
		}
		return out
	case reflect.Map:
		if v.IsNil() {
			return nil
		}
		out := map[string]interface{}{}
		it := v.MapRange()
		for it.Next() {
			out[fmt.Sprint(canon(it.Key()))] = canon(it.Value())
		}
		return out
	case reflect.Slice:
		if v.IsNil() {
			return nil
		}
		fallthrough
	case reflect.Array:
		out := make([]interface{}, v.Len())
		for i := range out {
			out[i] = canon(v.Index(i))
		}
		return out
	case reflect.Chan, reflect.Func:
		return v.IsNil()
	}
	return v.Interface()
}

// stripFuncs makes a value comparable with DeepEqual (func fields never compare equal unless nil).
func stripFuncs(p interface{}) interface{} {
	v := reflect.ValueOf(p)
	if v.Kind() != reflect.Ptr || v.IsNil() {
		return p
	}
	cp := reflect.New(v.Type().Elem())
	cp.Elem().Set(v.Elem())
	var walk func(reflect.Value)
	walk = func(x reflect.Value) {
		switch x.Kind() {
		case reflect.Struct:
			for i := 0; i < x.NumField(); i++ {
				f := x.Field(i)
				if !f.CanSet() {
					continue
				}
				if f.Kind() == reflect.Func || f.Kind() == reflect.Chan {
					f.Set(reflect.Zero(f.Type()))
				} else {
					walk(f)
				}
			}
		case reflect.Ptr:
			if !x.IsNil() && x.Elem().Kind() == reflect.Struct && x.CanSet() {
				n := reflect.New(x.Type().Elem())
				n.Elem().Set(x.Elem())
				x.Set(n)
				walk(n.Elem())
			}
		}
	}
	walk(cp.Elem())
	return cp.Interface()
}

func stackMain(args []string) {
	if len(args) < 2 {
		fatalf("usage: vh stack <cases.ndjson> <results.ndjson>")
	}
	in, err := os.Open(args[0])
	if err != nil {
		fatalf("%v", err)
	}
	outf, err := os.Create(args[1])
	if err != nil {
		fatalf("%v", err)
	}
	out := bufio.NewWriterSize(outf, 1<<20)
	scn := bufio.NewScanner(in)
	scn.Buffer(make([]byte, 1<<20), 1<<24)
	n, bad := 0, 0
	for scn.Scan() {
		line := strings.TrimSpace(scn.Text())
		if line == "" {
			continue
		}
		var c sCase
		if err := json.Unmarshal([]byte(line), &c); err != nil {
			fatalf("bad case: %v: %s", err, line[:200])
		}
		mis := runStackCase(c)
		n++
		if len(mis) > 0 {
			bad++
			b, _ := json.Marshal(map[string]any{"id": c.ID, "mismatches": mis})
			out.Write(b)
			out.WriteByte('\n')
		}
	}
	b, _ := json.Marshal(map[string]any{"final": true, "cases": n, "bad": bad})
	out.Write(b)
	out.WriteByte('\n')
	out.Flush()
	outf.Close()
}
