package main

// File-watch driver (C17): executes environment-operation histories emitted by
// TLC from spec/FileWatch.tla on a real directory against a real
// file.WatchingSource (JSON decoder) inside a real Dials and judges convergence
// by the property's own statement.

import (
	"bufio"
	"context"
	"encoding/json"
	"fmt"
	"io"
	"os"
	"path/filepath"
	"reflect"
	"strings"
	"sync"

	"sync/atomic"
	"time"

	"github.com/vimeo/dials"
	djson "github.com/vimeo/dials/decoders/json"
	"github.com/vimeo/dials/sources/file"
)

type FCfg struct {
	A   int   `dials:"a"`
	Inc fwInc `dials:"inc"`
}

// fwInc names a file that is loaded while decoding (as a certificate or an include would be); a dangling reference makes the
// decoder fail with an error that wraps fs.ErrNotExist although the watched file itself exists
type fwInc string

func (i *fwInc) UnmarshalJSON(b []byte) error {
	var name string
	if err := json.Unmarshal(b, &name); err != nil {
		return err
	}
	if name == "missing" {
		return fmt.Errorf("loading include %q: %w", name, os.ErrNotExist)
	}
	*i = fwInc(name)
	return nil
}

func (c *FCfg) Verify() error {
	if c.A%10 == 9 {
		return fmt.Errorf("verify-bad a=%d", c.A)
	}
	return nil
}

type fwOp struct {
	Op    string `json:"op"`
	C     string `json:"c"`
	Pause int    `json:"pause"` // microseconds to sleep after the op (0: none; -1: wait until the view has converged)
	Mid   bool   `json:"mid"`   // perform the op inside the watch loop, between its read and its re-arming (hook fw.read)
	InDec bool   `json:"indec"` // perform the op at the moment the watcher hands the opened file to the decoder
}

var fwPendingDec atomic.Pointer[func()]

// fwDec wraps the decoder of the watched source: an operation can be made to land after the file was opened (and possibly
// looked at) but before its content is decoded
type fwDec struct{ inner dials.Decoder }

func (d *fwDec) Decode(r io.Reader, t *dials.Type) (reflect.Value, error) {
	if f := fwPendingDec.Swap(nil); f != nil {
		(*f)()
		select {
		case fwFired <- struct{}{}:
		default:
		}
	}
	return d.inner.Decode(r, t)
}

var fwPending atomic.Pointer[func()]
var fwFired = make(chan struct{}, 1)

var fwLogMu sync.Mutex
var fwLog []string

func fwHook(_ context.Context, point string, kv ...any) {
	fwLogMu.Lock()
	fwLog = append(fwLog, fmt.Sprint(point, kv))
	fwLogMu.Unlock()
	if point != "fw.read" {
		return
	}
	if f := fwPending.Swap(nil); f != nil {
		(*f)()
		select {
		case fwFired <- struct{}{}:
		default:
		}
	}
}

type fwCase struct {
	ID     string `json:"id"`
	Layout string `json:"layout"`
	Ops    []fwOp `json:"ops"`
}

var fwContent = map[string]string{
	"g0": `{"a": 10}`, "g1": `{"a": 11}`, "g2": `{"a": 12}`, "b1": `{"a": 19}`, "junk": `{"a": [[[`, "empty": ``,
}
var fwValue = map[string]int{"g0": 10, "g1": 11, "g2": 12}

func inotifyFDs() int {
	ents, _ := os.ReadDir("/proc/self/fd")
	n := 0
	for _, e := range ents {
		if l, err := os.Readlink("/proc/self/fd/" + e.Name()); err == nil && strings.Contains(l, "inotify") {
			n++
		}
	}
	return n
}

type fwMis struct {
	Kind   string `json:"kind"` // prop | harness
	Detail string `json:"detail"`
}

func runFwCase(c fwCase, base string) (mis []fwMis, info map[string]any) {
	info = map[string]any{}
	defer func() {
		if r := recover(); r != nil {
			mis = append(mis, fwMis{"harness", fmt.Sprint("panic in the driver: ", r)})
		}
	}()
	dir, err := os.MkdirTemp(base, "fw")
	if err != nil {
		panic(err)
	}
	defer os.RemoveAll(dir)
	path := filepath.Join(dir, "cfg.json")
	k8s := c.Layout == "k8s"
	gen := 0
	newTarget := func(content string) string {
		gen++
		d := filepath.Join(dir, fmt.Sprintf("..ts%d", gen))
		if err := os.Mkdir(d, 0o755); err != nil {
			panic(err)
		}
		if err := os.WriteFile(filepath.Join(d, "cfg.json"), []byte(content), 0o644); err != nil {
			panic(err)
		}
		return d
	}
	curTarget := ""
	if k8s {
		// dir/cfg.json -> ..dir/cfg.json ; dir/..dir -> ..tsN
		curTarget = newTarget(fwContent["g0"])
		if err := os.Symlink(filepath.Base(curTarget), filepath.Join(dir, "..dir")); err != nil {
			panic(err)
		}
		if err := os.Symlink(filepath.Join("..dir", "cfg.json"), path); err != nil {
			panic(err)
		}
	} else if err := os.WriteFile(path, []byte(fwContent["g0"]), 0o644); err != nil {
		panic(err)
	}
	file.VerifHook = fwHook
	fwLogMu.Lock()
	fwLog = nil
	fwLogMu.Unlock()
	fd0 := inotifyFDs()
	ctx, cancel := context.WithCancel(context.Background())
	ws, err := file.NewWatchingSource(path, &fwDec{inner: &djson.Decoder{}})
	if err != nil {
		panic(err)
	}
	var nerr atomic.Int64

	p := dials.Params[FCfg]{OnWatchedError: func(context.Context, error, *FCfg, *FCfg) { nerr.Add(1) }}
	d, err := p.Config(ctx, &FCfg{}, ws)
	if err != nil {
		cancel()
		return []fwMis{{"harness", "Config failed: " + err.Error()}}, info
	}

	serialOf := func() uint64 { _, tok := d.ViewVersion(); return *(*uint64)(unsafePtr(&tok)) }
	everGood := map[int]bool{10: true}
	curContent := "g0" // what the path currently holds ("" when absent)
	tmp := ""
	waitConverged := func(max time.Duration) bool {
		want, ok := fwValue[curContent]
		if !ok {
			time.Sleep(3 * time.Millisecond)
			return true
		}
		dl := time.Now().Add(max)
		for time.Now().Before(dl) {
			if d.View().A == want {
				return true
			}
			time.Sleep(100 * time.Microsecond)
		}
		return false
	}
	forced := 0
	var opFail atomic.Value
	identOff := false // an operation is armed to run inside the watch loop: serial deltas are not attributable
	var oldDirs []string
	mkDo := func(op fwOp) func() {
		text := fwContent[op.C]
		if op.C == "junk" && len(c.ID)%2 == 1 {
			// the other way of not decoding: well-formed, but an include it refers to is missing
			text = `{"a": 12, "inc": "missing"}`
		}
		return func() {
			defer func() {
				if r := recover(); r != nil {
					opFail.Store(fmt.Sprint(r))
				}
			}()
			switch op.Op {
			case "trunc":
				if err := os.Truncate(path, 0); err != nil {
					panic(err)
				}
				curContent = "empty"
			case "write":
				// one write system call, as in the model (truncation is an operation of its own there): a rewrite with content
				// of the same length raises exactly one event
				f, err := os.OpenFile(path, os.O_WRONLY, 0o644)
				if err != nil {
					panic(err)
				}
				st, _ := f.Stat()
				f.WriteAt([]byte(text), 0)
				if st != nil && st.Size() != int64(len(text)) {
					f.Truncate(int64(len(text)))
				}
				f.Close()
				curContent = op.C
			case "tmp":
				tmp = filepath.Join(dir, "cfg.json.tmp")
				if err := os.WriteFile(tmp, []byte(text), 0o644); err != nil {
					panic(err)
				}
				info["tmpc"] = op.C
			case "rename":
				same := info["tmpc"] == curContent
				quiet := false
				if same {
					quiet = waitConverged(2 * time.Second)
					time.Sleep(2 * time.Millisecond) // let trailing duplicate events of the previous change drain
				}
				prevSerial := serialOf()
				if err := os.Rename(tmp, path); err != nil {
					panic(err)
				}
				curContent = fmt.Sprint(info["tmpc"])
				tmp = ""
				if same && quiet && !identOff {
					// atomically replacing the file with identical content never produces a new version
					time.Sleep(30 * time.Millisecond)
					if s := serialOf(); s != prevSerial && fwValue[curContent] != 0 {
						mis = append(mis, fwMis{"prop", fmt.Sprintf("identical atomic replacement produced a new version (serial %d -> %d)", prevSerial, s)})
					}
				}
			case "unlink":
				if err := os.Remove(path); err != nil {
					panic(err)
				}
				curContent = ""
			case "create":
				f, err := os.OpenFile(path, os.O_CREATE|os.O_EXCL|os.O_WRONLY, 0o644)
				if err != nil {
					panic(err)
				}
				f.Close()
				curContent = "empty"
			case "swap":
				old := curTarget
				curTarget = newTarget(text)
				tmpl := filepath.Join(dir, "..dir_tmp")
				if err := os.Symlink(filepath.Base(curTarget), tmpl); err != nil {
					panic(err)
				}
				if err := os.Rename(tmpl, filepath.Join(dir, "..dir")); err != nil {
					panic(err)
				}
				os.RemoveAll(old)
				curContent = op.C
			case "writein":
				f, err := os.OpenFile(filepath.Join(curTarget, "cfg.json"), os.O_WRONLY|os.O_TRUNC, 0o644)
				if err != nil {
					panic(err)
				}
				f.WriteString(text)
				f.Close()
				curContent = op.C
			}
		}
	}
	skip := false
	for i, op := range c.Ops {
		if skip {
			// already performed inside the watch loop together with the previous operation
			skip = false
			continue
		}
		nextMid := i+1 < len(c.Ops) && (c.Ops[i+1].Mid || c.Ops[i+1].InDec) && !op.Mid && !op.InDec
		if nextMid {
			// the next operation is to land between the watcher's read (caused by this one) and its re-arming
			select {
			case <-fwFired:
			default:
			}
			nd := mkDo(c.Ops[i+1])
			if c.Ops[i+1].InDec {
				fwPendingDec.Store(&nd)
			} else {
				fwPending.Store(&nd)
			}
		}
		identOff = nextMid
		mkDo(op)()
		if nextMid {
			skip = true
			select {
			case <-fwFired:
				forced++
			case <-time.After(150 * time.Millisecond):
				f := fwPending.Swap(nil)
				if f == nil {
					f = fwPendingDec.Swap(nil)
				}
				if f != nil {
					(*f)() // the watcher did not wake up: perform it here
				} else {
					// the watcher has taken the operation and is performing it: wait for it (2 s were not enough at load 130: the
					// history went on while the operation was still to come, and the bookkeeping of the file's content was off)
					select {
					case <-fwFired:
						forced++
					case <-time.After(30 * time.Second):
						cancel()
						return []fwMis{{"harness", "an operation handed to the watcher's hook was not performed within 30 s"}}, info
					}
				}
			}
		}
		if v, ok := fwValue[curContent]; ok {
			everGood[v] = true
		}
		switch {
		case op.Pause > 0:
			time.Sleep(time.Duration(op.Pause) * time.Microsecond)
		case op.Pause < 0:
			waitConverged(2 * time.Second)
		}
	}
	if f := opFail.Load(); f != nil {
		// an operation's precondition did not hold at the moment it was performed (forced placement): not a verdict
		cancel()
		ws.WG.Wait()
		return []fwMis{{"harness", "operation failed: " + f.(string)}}, info
	}
	// changes have stopped; the ground truth is what the path holds now
	info["forced_mid"] = forced
	if os.Getenv("FW_DEBUG") != "" {
		time.Sleep(20 * time.Millisecond)
		fwLogMu.Lock()
		info["log"] = append([]string{}, fwLog...)
		fwLogMu.Unlock()
	}
	curContent = ""
	if b, err := os.ReadFile(path); err == nil {
		curContent = "?"
		for k, v := range fwContent {
			if v == string(b) {
				curContent = k
			}
		}
	}
	for _, o := range c.Ops {
		if v, ok := fwValue[o.C]; ok {
			everGood[v] = true
		}
	}
	t0 := time.Now()
	if want, ok := fwValue[curContent]; ok {
		if !waitConverged(20 * time.Second) {
			mis = append(mis, fwMis{"prop", fmt.Sprintf("final content %s (a=%d) but the view stayed at a=%d for 20 s after the last change", curContent, want, d.View().A)})
		}
		info["converge_us"] = time.Since(t0).Microseconds()
	} else {
		// invalid / malformed / absent final content: the view stays at a good config the file once held
		dl := time.Now().Add(15 * time.Second) // (used up only when the error never arrives; 300 ms were not enough at load 100)
		for time.Now().Before(dl) && !(curContent == "" || nerr.Load() > 0) {
			time.Sleep(200 * time.Microsecond)
		}
		time.Sleep(2 * time.Millisecond)
		if !everGood[d.View().A] {
			mis = append(mis, fwMis{"prop", fmt.Sprintf("final content %q is not a valid config, yet the view is a=%d, which the file never held as a valid config", curContent, d.View().A)})
		}
		if curContent != "" && nerr.Load() == 0 {
			// the invalid final content must have been reported (unless the watcher legitimately never read it as new)
			time.Sleep(200 * time.Millisecond)
			if nerr.Load() == 0 {
				mis = append(mis, fwMis{"prop", fmt.Sprintf("final content %q is invalid but no error was reported to OnWatchedError", curContent)})
			}
		}
	}
	for _, o := range oldDirs {
		os.RemoveAll(o)
	}
	// release
	cancel()
	done := make(chan struct{})
	go func() { ws.WG.Wait(); close(done) }()
	select {
	case <-done:
	case <-time.After(10 * time.Second):
		mis = append(mis, fwMis{"prop", "the watcher goroutine did not exit within 10 s of the context being cancelled"})
	}
	dl := time.Now().Add(time.Second)
	for inotifyFDs() > fd0 && time.Now().Before(dl) {
		time.Sleep(200 * time.Microsecond)
	}
	if n := inotifyFDs(); n > fd0 {
		mis = append(mis, fwMis{"prop", fmt.Sprintf("%d inotify descriptor(s) still open after cancel", n-fd0)})
	}
	return mis, info
}

// gateDecoder blocks inside Decode while its gate is armed, which stalls the watch loop.
type gateDecoder struct {
	inner dials.Decoder
	armed atomic.Bool
	in    chan struct{}
	gate  chan struct{}
}

func (g *gateDecoder) Decode(r io.Reader, t *dials.Type) (reflect.Value, error) {
	if g.armed.CompareAndSwap(true, false) {
		g.in <- struct{}{}
		<-g.gate
	}
	return g.inner.Decode(r, t)
}

// runFwOverflow: the kernel's event queue overflows while the watcher is busy; the final replacement happens while
// the queue is full, so the overflow error is the only signal the watcher gets.
func runFwOverflow(c fwCase, base string) (mis []fwMis, info map[string]any) {
	info = map[string]any{}
	maxq := 16384
	if b, err := os.ReadFile("/proc/sys/fs/inotify/max_queued_events"); err == nil {
		fmt.Sscan(strings.TrimSpace(string(b)), &maxq)
	}
	if maxq > 100000 {
		return []fwMis{{"harness", "max_queued_events too large for the overflow scenario"}}, info
	}
	dir, err := os.MkdirTemp(base, "fwo")
	if err != nil {
		return []fwMis{{"harness", err.Error()}}, info
	}
	defer os.RemoveAll(dir)
	path := filepath.Join(dir, "cfg.json")
	os.WriteFile(path, []byte(fwContent["g0"]), 0o644)
	ctx, cancel := context.WithCancel(context.Background())
	defer cancel()
	gd := &gateDecoder{inner: &djson.Decoder{}, in: make(chan struct{}), gate: make(chan struct{})}
	sig := make(chan os.Signal, 1)
	ws, err := file.NewWatchingSource(path, gd, file.WithSignalChannel(sig))
	if err != nil {
		return []fwMis{{"harness", err.Error()}}, info
	}
	d, err := dials.Config(ctx, &FCfg{}, ws)
	if err != nil {
		return []fwMis{{"harness", err.Error()}}, info
	}
	// park the watcher inside Decode
	gd.armed.Store(true)
	sig <- os.Interrupt
	select {
	case <-gd.in:
	case <-time.After(3 * time.Second):
		return []fwMis{{"harness", "the watcher did not react to the reload signal"}}, info
	}
	sib := filepath.Join(dir, "sibling")
	for i := 0; i < maxq/2+1500; i++ {
		os.WriteFile(sib, nil, 0o644)
		os.Remove(sib)
	}
	atomicWrite(path, fwContent["g1"])
	close(gd.gate)
	dl := time.Now().Add(20 * time.Second)
	for time.Now().Before(dl) && d.View().A != 11 {
		time.Sleep(time.Millisecond)
	}
	if d.View().A != 11 {
		mis = append(mis, fwMis{"prop", fmt.Sprintf("after an event-queue overflow the final content g1 (a=11) was never picked up: view a=%d 8 s after the last change", d.View().A)})
	}
	cancel()
	ws.WG.Wait()
	return mis, info
}

func fwMain(args []string) {
	if len(args) < 2 {
		fatalf("usage: vh fw <cases.ndjson> <results.ndjson>")
	}
	in, err := os.Open(args[0])
	if err != nil {
		fatalf("%v", err)
	}
	outf, err := os.Create(args[1])
	if err != nil {
		fatalf("%v", err)
	}
	base, err := os.MkdirTemp(filepath.Dir(args[1]), "fwdirs")
	if err != nil {
		fatalf("%v", err)
	}
	defer os.RemoveAll(base)
	out := bufio.NewWriter(outf)
	scn := bufio.NewScanner(in)
	scn.Buffer(make([]byte, 1<<20), 1<<24)
	n := 0
	for scn.Scan() {
		line := strings.TrimSpace(scn.Text())
		if line == "" {
			continue
		}
		var c fwCase
		if err := json.Unmarshal([]byte(line), &c); err != nil {
			fatalf("bad case: %v: %s", err, line)
		}
		fmt.Fprintf(out, "{\"begin\":%q}\n", c.ID)
		out.Flush()
		var mis []fwMis
		var info map[string]any
		if c.Layout == "overflow" {
			mis, info = runFwOverflow(c, base)
		} else {
			mis, info = runFwCase(c, base)
		}
		b, _ := json.Marshal(map[string]any{"id": c.ID, "mismatches": mis, "info": info})
		out.Write(b)
		out.WriteByte('\n')
		n++
	}
	leaked := waitNoDialsGoroutines(10 * time.Second)
	b, _ := json.Marshal(map[string]any{"final": true, "cases": n, "leaked": len(leaked)})
	out.Write(b)
	out.WriteByte('\n')
	out.Flush()
	outf.Close()
}
