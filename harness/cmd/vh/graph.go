package main

// Graph driver (C03): builds the object graphs emitted by TLC from
// spec/DeepCopy.tla over a fixed family of recursive Go types, copies them with
// the real deep copier (directly, and through dials.Config + View) and checks
// termination, deep equality, freshness and that pointer- / map-typed
// references that were identical in the input are identical in the copy.

import (
	"bufio"
	"context"
	"encoding/json"
	"fmt"
	"os"
	"reflect"
	"runtime/debug"
	"strings"
	"time"

	"github.com/vimeo/dials"
)

type GNode struct {
	V  int
	P  *GNode
	S  []*GNode
	A  [1]*GNode
	M  map[string]*GNode
	MI map[string]interface{}
	MM map[string]map[string]*GNode
	I  interface{}
}

// GBox is held by value in interfaces: a struct value with a reference inside
type GBox struct {
	P *GNode
}

// GRoot reaches the graph through a slice, so that the type can be pointerified (see finding D3).
type GRoot struct {
	Nodes []*GNode
	Extra *[]*GNode // a user-declared pointer whose pointerified type is its own type; it reaches the same graph
}

// gRootSharing: the two fields of a root reach the very same node
func gRootSharing(kind string, v *GRoot) []string {
	if v.Extra == nil || len(*v.Extra) != 1 || len(v.Nodes) != 1 {
		return []string{kind + ": the view lost the second reference to the graph"}
	}
	if (*v.Extra)[0] != v.Nodes[0] {
		return []string{kind + ": references that were identical in the input (Nodes[0], (*Extra)[0]) are different objects in the result"}
	}
	return nil
}

type gRef struct {
	T string `json:"t"`
	V int    `json:"v"`
}

type gCase struct {
	ID    string            `json:"id"`
	Nodes []map[string]gRef `json:"nodes"`
	Maps  []map[string]gRef `json:"maps"`
	IMaps []gRef            `json:"imaps"`
	MMaps []map[string]gRef `json:"mmaps"`
	Probe string            `json:"probe"` // fixed shapes outside the node family: "selfptr" (D3), "interior" (D4)
}

// gPoint / gInterior: two pointers into a by-value field that is copied after the first of them
type gPoint struct{ X, Y int }
type gInterior struct {
	P1 *int
	A  gPoint
	P2 *int
}

func runGraphProbe(kind string) (mis []string) {
	defer func() {
		if r := recover(); r != nil {
			mis = append(mis, fmt.Sprint("panic: ", r))
		}
	}()
	switch kind {
	case "selfptr":
		// a config type that points to itself through a plain pointer field, no cycle in the value at all
		d, err := dials.Config(context.Background(), &GNode{V: 1})
		if err != nil {
			mis = append(mis, "Config failed: "+err.Error())
		} else if d.View().V != 1 {
			mis = append(mis, "Config: the view lost the value")
		}
	case "interior":
		r := &gInterior{}
		r.P1, r.P2 = &r.A.X, &r.A.X
		d, err := dials.Config(context.Background(), r)
		if err != nil {
			mis = append(mis, "Config failed: "+err.Error())
			return
		}
		v := d.View()
		if v.P1 != v.P2 {
			mis = append(mis, "interior pointers: references that were identical in the input are different objects in the copy (P1, P2 = &A.X)")
		}
	}
	return mis
}

func gBuild(c gCase) []*GNode {
	nodes := make([]*GNode, len(c.Nodes))
	for i := range nodes {
		nodes[i] = &GNode{V: i + 1}
	}
	maps := make([]map[string]*GNode, len(c.Maps))
	for i := range maps {
		maps[i] = map[string]*GNode{}
	}
	imaps := make([]map[string]interface{}, len(c.IMaps))
	for i := range imaps {
		imaps[i] = map[string]interface{}{}
	}
	mmaps := make([]map[string]map[string]*GNode, len(c.MMaps))
	for i, r := range c.MMaps {
		mmaps[i] = map[string]map[string]*GNode{}
		for _, k := range []string{"a", "b"} {
			if r[k].T == "map" {
				mmaps[i][k] = maps[r[k].V-1]
			} else {
				mmaps[i][k] = nil
			}
		}
	}
	node := func(r gRef) *GNode {
		if r.T == "node" {
			return nodes[r.V-1]
		}
		return nil
	}
	any := func(r gRef) interface{} {
		switch r.T {
		case "node":
			return nodes[r.V-1]
		case "map":
			return maps[r.V-1]
		case "imap":
			return imaps[r.V-1]
		case "box":
			// a value with a reference inside: a struct for odd nodes, for even nodes a slice header whose array has
			// spare capacity (interface-held slices built with append / make(n, m) look like that)
			if r.V%2 == 0 {
				sl := make([]*GNode, 1, 3)
				sl[0] = nodes[r.V-1]
				return sl
			}
			return GBox{P: nodes[r.V-1]}
		}
		return nil
	}
	for i, r := range c.Maps {
		maps[i]["v"] = node(r["v"])
		maps[i]["w"] = node(r["w"])
	}
	for i, r := range c.IMaps {
		if r.T != "nil" {
			imaps[i]["i"] = any(r)
		}
	}
	for i, nv := range c.Nodes {
		n := nodes[i]
		if r, ok := nv["p"]; ok {
			n.P = node(r)
		}
		if nv["s1"].T == "node" || nv["s2"].T == "node" {
			n.S = append(make([]*GNode, 0, 2+i%3), node(nv["s1"]), node(nv["s2"])) // (spare capacity for some nodes)
		}
		if r, ok := nv["a"]; ok {
			n.A[0] = node(r)
		}
		if r, ok := nv["m"]; ok && r.T == "map" {
			n.M = maps[r.V-1]
		}
		if r, ok := nv["mi"]; ok && r.T == "imap" {
			n.MI = imaps[r.V-1]
		}
		if r, ok := nv["mm"]; ok && r.T == "mmap" {
			n.MM = mmaps[r.V-1]
		}
		if r, ok := nv["i"]; ok {
			n.I = any(r)
		}
		// a node without any outgoing reference is entirely zero-valued (also its payload): shared sinks of that kind must
		// stay shared like any other node
		if n.P == nil && n.S == nil && n.A[0] == nil && n.M == nil && n.MI == nil && n.MM == nil && n.I == nil {
			n.V = 0
		}
	}
	return nodes
}

// gSites walks original and copy in lockstep and records, for every pointer- or map-typed slot, the pair of targets.
type gSite struct {
	path     string
	orig, cp uintptr
}

func gWalk(o, c *GNode, path string, seen map[*GNode]bool, out *[]gSite, diffs *[]string) {
	if o == nil || c == nil {
		if (o == nil) != (c == nil) {
			*diffs = append(*diffs, path+": nil-ness differs")
		}
		return
	}
	if seen[o] {
		return
	}
	seen[o] = true
	if o.V != c.V {
		*diffs = append(*diffs, fmt.Sprintf("%s: node %d copied as node %d", path, o.V, c.V))
	}
	site := func(p string, a, b *GNode) {
		if a != nil && b != nil {
			*out = append(*out, gSite{p, reflect.ValueOf(a).Pointer(), reflect.ValueOf(b).Pointer()})
		}
		gWalk(a, b, p, seen, out, diffs)
	}
	site(path+".P", o.P, c.P)
	if (o.S == nil) != (c.S == nil) || len(o.S) != len(c.S) {
		*diffs = append(*diffs, path+".S: shape differs")
	} else {
		for i := range o.S {
			site(fmt.Sprintf("%s.S[%d]", path, i), o.S[i], c.S[i])
		}
	}
	site(path+".A[0]", o.A[0], c.A[0])
	if (o.M == nil) != (c.M == nil) {
		*diffs = append(*diffs, path+".M: nil-ness differs")
	} else if o.M != nil {
		*out = append(*out, gSite{path + ".M", reflect.ValueOf(o.M).Pointer(), reflect.ValueOf(c.M).Pointer()})
		site(path+".M[v]", o.M["v"], c.M["v"])
		site(path+".M[w]", o.M["w"], c.M["w"])
	}
	if (o.MI == nil) != (c.MI == nil) {
		*diffs = append(*diffs, path+".MI: nil-ness differs")
	} else if o.MI != nil {
		*out = append(*out, gSite{path + ".MI", reflect.ValueOf(o.MI).Pointer(), reflect.ValueOf(c.MI).Pointer()})
		gIface(o.MI["i"], c.MI["i"], path+".MI[i]", seen, out, diffs)
	}
	if (o.MM == nil) != (c.MM == nil) || len(o.MM) != len(c.MM) {
		*diffs = append(*diffs, path+".MM: shape differs")
	} else if o.MM != nil {
		*out = append(*out, gSite{path + ".MM", reflect.ValueOf(o.MM).Pointer(), reflect.ValueOf(c.MM).Pointer()})
		for _, k := range []string{"a", "b"} {
			om, cm := o.MM[k], c.MM[k]
			p := fmt.Sprintf("%s.MM[%s]", path, k)
			if (om == nil) != (cm == nil) {
				*diffs = append(*diffs, p+": nil-ness differs")
				continue
			}
			if om == nil {
				continue
			}
			*out = append(*out, gSite{p, reflect.ValueOf(om).Pointer(), reflect.ValueOf(cm).Pointer()})
			site(p+"[v]", om["v"], cm["v"])
			site(p+"[w]", om["w"], cm["w"])
		}
	}
	gIface(o.I, c.I, path+".I", seen, out, diffs)
}

// interface payloads: only followed (their own identity is not part of the sharing requirement)
func gIface(o, c interface{}, path string, seen map[*GNode]bool, out *[]gSite, diffs *[]string) {
	switch ov := o.(type) {
	case *GNode:
		cv, ok := c.(*GNode)
		if !ok {
			*diffs = append(*diffs, path+": dynamic type differs")
			return
		}
		gWalk(ov, cv, path, seen, out, diffs)
	case GBox:
		cv, ok := c.(GBox)
		if !ok {
			*diffs = append(*diffs, path+": dynamic type differs")
			return
		}
		if ov.P != nil && cv.P != nil {
			*out = append(*out, gSite{path + ".P", reflect.ValueOf(ov.P).Pointer(), reflect.ValueOf(cv.P).Pointer()})
		}
		gWalk(ov.P, cv.P, path+".P", seen, out, diffs)
	case []*GNode:
		cv, ok := c.([]*GNode)
		if !ok || len(cv) != len(ov) {
			*diffs = append(*diffs, path+": dynamic type or length differs")
			return
		}
		for i := range ov {
			if ov[i] != nil && cv[i] != nil {
				*out = append(*out, gSite{fmt.Sprintf("%s[%d]", path, i), reflect.ValueOf(ov[i]).Pointer(), reflect.ValueOf(cv[i]).Pointer()})
			}
			gWalk(ov[i], cv[i], fmt.Sprintf("%s[%d]", path, i), seen, out, diffs)
		}
	case map[string]*GNode:
		cv, ok := c.(map[string]*GNode)
		if !ok {
			*diffs = append(*diffs, path+": dynamic type differs")
			return
		}
		if ov["v"] != nil && cv["v"] != nil {
			*out = append(*out, gSite{path + "[v]", reflect.ValueOf(ov["v"]).Pointer(), reflect.ValueOf(cv["v"]).Pointer()})
		}
		gWalk(ov["v"], cv["v"], path+"[v]", seen, out, diffs)
		if ov["w"] != nil && cv["w"] != nil {
			*out = append(*out, gSite{path + "[w]", reflect.ValueOf(ov["w"]).Pointer(), reflect.ValueOf(cv["w"]).Pointer()})
		}
		gWalk(ov["w"], cv["w"], path+"[w]", seen, out, diffs)
	case map[string]interface{}:
		cv, ok := c.(map[string]interface{})
		if !ok {
			*diffs = append(*diffs, path+": dynamic type differs")
			return
		}
		if reflect.ValueOf(ov).Pointer() == reflect.ValueOf(o).Pointer() && len(path) > 200 {
			return
		}
		if len(path) < 200 {
			gIface(ov["i"], cv["i"], path+"[i]", seen, out, diffs)
		}
	}
}

func gJudge(kind string, orig, cp *GNode) (mis []string) {
	if !reflect.DeepEqual(orig, cp) {
		mis = append(mis, kind+": the copy is not deeply equal to the input")
	}
	var sites []gSite
	var diffs []string
	gWalk(orig, cp, "root", map[*GNode]bool{}, &sites, &diffs)
	for _, d := range diffs {
		mis = append(mis, kind+": "+d)
	}
	origAddrs := map[uintptr]bool{}
	for _, s := range sites {
		origAddrs[s.orig] = true
	}
	if cp != nil {
		if reflect.ValueOf(cp).Pointer() == reflect.ValueOf(orig).Pointer() {
			mis = append(mis, kind+": the root was not copied")
		}
	}
	m := map[uintptr]uintptr{}
	for _, s := range sites {
		if origAddrs[s.cp] {
			mis = append(mis, fmt.Sprintf("%s: %s still points into the input (not fresh)", kind, s.path))
		}
		if prev, ok := m[s.orig]; ok && prev != s.cp {
			mis = append(mis, fmt.Sprintf("%s: references that were identical in the input are different objects in the copy (at %s)", kind, s.path))
		}
		m[s.orig] = s.cp
	}
	return mis
}

func runGraphCase(c gCase) (mis []string) {
	defer func() {
		if r := recover(); r != nil {
			mis = append(mis, fmt.Sprint("panic: ", r))
		}
	}()
	nodes := gBuild(c)
	root := nodes[0]
	cp, _ := dials.VerifDeepCopy(root).(*GNode)
	mis = append(mis, gJudge("deep copier", root, cp)...)
	// through Config and View (defaults), and through a source value that is re-stacked
	d, err := dials.Config(context.Background(), &GRoot{Nodes: []*GNode{root}, Extra: &[]*GNode{root}})
	if err != nil {
		mis = append(mis, "Config failed: "+err.Error())
		return
	}
	v := d.View()
	if len(v.Nodes) != 1 {
		mis = append(mis, "Config: the view lost the graph")
		return
	}
	mis = append(mis, gJudge("Config+View", root, v.Nodes[0])...)
	mis = append(mis, gRootSharing("Config+View", v)...)
	// the graph as a source's value, stacked at Config time and re-stacked when the source reports it again
	ctx, cancel := context.WithCancel(context.Background())
	defer cancel()
	src := &gSrc{root: root}
	d2, err := dials.Config(ctx, &GRoot{}, src)
	if err != nil {
		mis = append(mis, "Config with the graph as a source value failed: "+err.Error())
		return
	}
	v1 := d2.View()
	if len(v1.Nodes) != 1 {
		mis = append(mis, "source value: the view lost the graph")
		return
	}
	mis = append(mis, gJudge("source value", root, v1.Nodes[0])...)
	mis = append(mis, gRootSharing("source value", v1)...)
	rctx, rcancel := context.WithTimeout(ctx, 20*time.Second)
	defer rcancel()
	if err := src.wa.BlockingReportNewValue(rctx, src.value()); err != nil {
		mis = append(mis, "re-reporting the graph failed: "+err.Error())
		return
	}
	v2 := d2.View()
	if v2 == v1 || len(v2.Nodes) != 1 {
		mis = append(mis, "re-stacking: no new version / the view lost the graph")
		return
	}
	mis = append(mis, gJudge("re-stacked source value", root, v2.Nodes[0])...)
	mis = append(mis, gRootSharing("re-stacked source value", v2)...)
	mis = append(mis, gJudge("successive versions", v1.Nodes[0], v2.Nodes[0])...)
	return mis
}

// gSrc hands the graph to dials as its value (a watching source, so that it can report it again)
type gSrc struct {
	root *GNode
	typ  *dials.Type
	wa   dials.WatchArgs
}

func (g *gSrc) value() reflect.Value {
	out := reflect.New(g.typ.Type()).Elem()
	out.FieldByName("Nodes").Set(reflect.ValueOf([]*GNode{g.root}))
	out.FieldByName("Extra").Set(reflect.ValueOf(&[]*GNode{g.root}))
	return out
}
func (g *gSrc) Value(_ context.Context, t *dials.Type) (reflect.Value, error) {
	g.typ = t
	return g.value(), nil
}
func (g *gSrc) Watch(_ context.Context, _ *dials.Type, wa dials.WatchArgs) error {
	g.wa = wa
	return nil
}

func graphMain(args []string) {
	if len(args) < 2 {
		fatalf("usage: vh graph <cases.ndjson> <results.ndjson>")
	}
	debug.SetMaxStack(48 << 20) // unbounded recursion dies in milliseconds instead of eating the machine
	in, err := os.Open(args[0])
	if err != nil {
		fatalf("%v", err)
	}
	outf, err := os.Create(args[1])
	if err != nil {
		fatalf("%v", err)
	}
	out := bufio.NewWriterSize(outf, 1<<16)
	scn := bufio.NewScanner(in)
	scn.Buffer(make([]byte, 1<<20), 1<<24)
	n := 0
	for scn.Scan() {
		line := strings.TrimSpace(scn.Text())
		if line == "" {
			continue
		}
		var c gCase
		if err := json.Unmarshal([]byte(line), &c); err != nil {
			fatalf("bad case: %v: %s", err, line[:200])
		}
		fmt.Fprintf(out, "{\"begin\":%q}\n", c.ID)
		out.Flush()
		var mis []string
		if c.Probe != "" {
			mis = runGraphProbe(c.Probe)
		} else {
			mis = runGraphCase(c)
		}
		var ms []map[string]any
		for _, m := range mis {
			ms = append(ms, map[string]any{"kind": "prop", "detail": m})
		}
		b, _ := json.Marshal(map[string]any{"id": c.ID, "mismatches": ms})
		out.Write(b)
		out.WriteByte('\n')
		n++
	}
	b, _ := json.Marshal(map[string]any{"final": true, "cases": n, "leaked": 0})
	out.Write(b)
	out.WriteByte('\n')
	out.Flush()
	outf.Close()
}
