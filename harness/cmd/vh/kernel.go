package main

// Kernel driver: runs scenarios against the real monitor / callback goroutine
// (dials.go, cb_mgr.go) under the gate scheduler or free-running under the
// tracer and writes one ndjson trace.

import (
	"bufio"
	"context"
	"encoding/json"
	"errors"
	"fmt"
	"io"
	"math/rand"
	"os"
	"reflect"
	"runtime"
	"sort"
	"strings"
	"sync"
	"sync/atomic"
	"time"
	"unsafe"

	"github.com/vimeo/dials"
	"github.com/vimeo/dials/sources/static"
)

// ValSpec is an abstract source value: which leaves it sets (0 = unset) and
// whether it cannot be stacked at all.
type ValSpec struct {
	X int  `json:"x"`
	Y int  `json:"y"`
	U bool `json:"u"`
}

type Op struct {
	Op    string   `json:"op"`              // reporter: val block err done ; client: view reg unreg enable events
	V     *ValSpec `json:"v,omitempty"`     // val / block
	Tok   string   `json:"tok,omitempty"`   // reg: last | zero
	H     int      `json:"h,omitempty"`     // unreg: handle id (10*client + op index of its reg)
	Block bool     `json:"block,omitempty"` // reg: the callback never returns (until teardown)
	Ms    int      `json:"ms,omitempty"`    // spin: poll ViewVersion for this long, logging every distinct (config, serial) pair
}

type Scenario struct {
	ID       string          `json:"id"`
	Mode     string          `json:"mode"` // plan | random | free
	Seed     int64           `json:"seed"`
	Skip     bool            `json:"skip"`
	Delay    bool            `json:"delay"`
	Suppress bool            `json:"suppress"`
	OnNew    bool            `json:"onnew"`
	OnErr    bool            `json:"onerr"`
	CbCap    int             `json:"cbcap"`
	Def      ValSpec         `json:"def"`
	Init     []ValSpec       `json:"init"` // one per watching source
	Procs    map[string][]Op `json:"procs"`
	Schedule []string        `json:"schedule"`
	MaxSteps int             `json:"maxsteps"`
	PCancel  float64         `json:"pcancel"`  // random mode: probability of a cancellation move
	CancelOK []string        `json:"cancelok"` // which cancellations random mode may use: ctx, rep, cli
	Oracle   bool            `json:"oracle"`   // compute the fresh-Config oracle at every idle monitor
	ReuseBuf bool            `json:"reusebuf"` // blocking reports hand over a pointer to one buffer per source, rewritten in place each time
	Starve   []string        `json:"starve"`   // random mode: goroutines that are only moved when nothing else can move
	PtrY     bool            `json:"ptry"`     // leaf y lives behind a user pointer (HCfg.L.Z) and sources hand it over as *HLim
}

// HCfg is the config type of every kernel scenario.
type HCfg struct {
	X int
	Y int
	L *HLim // second home of leaf y (Scenario.PtrY): a user-declared pointer to a struct, given by sources with the same type
	T time.Time
}

type HLim struct{ Z int }

func (c *HCfg) y() int {
	if c.L != nil {
		return c.L.Z
	}
	return c.Y
}

func mkDef(v ValSpec, ptrY bool) *HCfg {
	if ptrY && v.Y != 0 {
		return &HCfg{X: v.X, L: &HLim{Z: v.Y}}
	}
	return &HCfg{X: v.X, Y: v.Y}
}

var ptrYNow atomic.Bool

// the layer type used when y travels as *HLim: what a hand-written source would return
var ptrYLayer = reflect.StructOf([]reflect.StructField{
	{Name: "X", Type: reflect.TypeOf((*int)(nil))},
	{Name: "Y", Type: reflect.TypeOf((*int)(nil))},
	{Name: "L", Type: reflect.TypeOf((*HLim)(nil))},
	{Name: "T", Type: reflect.TypeOf((*time.Time)(nil))},
})

var curSched atomic.Pointer[Sched]
var inOracle atomic.Bool

func bad(v int) bool { return v%10 == 9 }

// Verify fails when a leaf holds a "bad" value; every call is recorded.
func (c *HCfg) Verify() error {
	ok := !bad(c.X) && !bad(c.y())
	if s := curSched.Load(); s != nil && !inOracle.Load() {
		s.Note("?", "verify", "x", c.X, "y", c.y(), "ok", ok)
	}
	if !ok {
		return fmt.Errorf("verify-bad x=%d y=%d", c.X, c.y())
	}
	return nil
}

type unstackT struct{ Q int }

// mkVal builds the value a source hands to dials for spec v.
func mkVal(t reflect.Type, v ValSpec) reflect.Value {
	if v.U {
		// same field layout, but T cannot be assigned to time.Time: stacking fails
		ut := reflect.StructOf([]reflect.StructField{
			{Name: "X", Type: reflect.TypeOf((*int)(nil))},
			{Name: "Y", Type: reflect.TypeOf((*int)(nil))},
			{Name: "L", Type: reflect.TypeOf((*HLim)(nil))},
			{Name: "T", Type: reflect.TypeOf(unstackT{})},
		})
		return reflect.New(ut).Elem()
	}
	ptrY := ptrYNow.Load()
	if ptrY {
		t = ptrYLayer
	}
	out := reflect.New(t).Elem()
	if v.X != 0 {
		x := v.X
		out.FieldByName("X").Set(reflect.ValueOf(&x))
	}
	if v.Y != 0 {
		if ptrY {
			out.FieldByName("L").Set(reflect.ValueOf(&HLim{Z: v.Y}))
		} else {
			y := v.Y
			out.FieldByName("Y").Set(reflect.ValueOf(&y))
		}
	}
	return out
}

type fsrc struct {
	idx  int
	init ValSpec
	wa   dials.WatchArgs
	typ  *dials.Type
	buf  reflect.Value // ReuseBuf: the one value this source ever reports (by pointer), updated in place
}

// reused returns the source's report buffer holding v (the reporter is blocked until the monitor is done with it)
func (f *fsrc) reused(v reflect.Value) reflect.Value {
	if !f.buf.IsValid() || f.buf.Elem().Type() != v.Type() {
		f.buf = reflect.New(v.Type())
	}
	f.buf.Elem().Set(v)
	return f.buf
}

func (f *fsrc) Value(_ context.Context, t *dials.Type) (reflect.Value, error) {
	f.typ = t
	return mkVal(t.Type(), f.init), nil
}

func (f *fsrc) Watch(_ context.Context, t *dials.Type, wa dials.WatchArgs) error {
	f.wa = wa
	return nil
}

type qent struct {
	kind  string
	owner string // proc#op for reg/unreg
}

type kernel struct {
	sc   Scenario
	s    *Sched
	d    *dials.Dials[HCfg]
	srcs []*fsrc
	rng  *rand.Rand

	cfgIDs map[*HCfg]int

	// shadow state (only exact in gated mode), protected by s.mu
	cbq       []qent
	cbCur     qent
	ctl       []string
	monCurCtl string
	evLen     int
	monExited bool
	ctxDone   bool
	cancelled map[string]bool // proc -> its current call context was cancelled
	replied   map[string]bool // reporter -> reply available
	partner   string          // reporter released together with the monitor
	monCurRep string
	unregDone map[string]bool // proc#op
	enDone    map[string]bool // proc#op
	curOp     map[string]int  // proc -> index of current op (1-based)
	curKind   map[string]string
	blockH    map[int]bool
	lastVal   map[int]ValSpec // src -> value most recently received by the monitor
	curVal    map[int]ValSpec // src -> value of the reporter's current call
	skipNow   bool

	rootCtx    context.Context
	cancelCfg  context.CancelFunc
	procCtx    map[string]context.Context
	procCancel map[string]context.CancelFunc
	wg         sync.WaitGroup

	steps, skipped int
	oracleAt       *arrival
	stop           atomic.Bool
}

func errClass(err error) string {
	if err == nil {
		return "nil"
	}
	return errClassS(err.Error())
}

func errClassS(s string) string {
	switch {
	case strings.Contains(s, "verify-bad"):
		return "verify"
	case strings.Contains(s, "not assignable"):
		return "stack"
	case strings.Contains(s, "src-err"):
		return "src"
	case strings.Contains(s, "context"):
		return "ctx"
	}
	return "other:" + s
}

// errText digs the message out of an error held in an unexported field.
func errText(v reflect.Value) string {
	for i := 0; i < 4; i++ {
		switch v.Kind() {
		case reflect.Interface, reflect.Ptr:
			if v.IsNil() {
				return "nil"
			}
			v = v.Elem()
			continue
		case reflect.Struct:
			for _, n := range []string{"msg", "s"} {
				if f := v.FieldByName(n); f.IsValid() && f.Kind() == reflect.String {
					return f.String()
				}
			}
		case reflect.String:
			return v.String()
		}
		break
	}
	return fmt.Sprint(v)
}

func (k *kernel) cfgFields(prefix string, c *HCfg, m map[string]any) {
	if c == nil {
		m[prefix] = -1
		m[prefix+"x"] = 0
		m[prefix+"y"] = 0
		return
	}
	id, ok := k.cfgIDs[c]
	if !ok {
		id = len(k.cfgIDs)
		k.cfgIDs[c] = id
	}
	m[prefix] = id
	m[prefix+"x"] = c.X
	m[prefix+"y"] = c.y()
}

// rewrite turns raw hook arguments into loggable fields (under s.mu).
func (k *kernel) rewrite(g, point string, kv []any) map[string]any {
	m := map[string]any{}
	for i := 0; i+1 < len(kv); i += 2 {
		key := fmt.Sprint(kv[i])
		switch v := kv[i+1].(type) {
		case *HCfg:
			k.cfgFields(key, v, m)
		case dials.Source:
			if f, ok := v.(*fsrc); ok {
				m[key] = f.idx
			} else {
				m[key] = -1
			}
		case uint64:
			m[key] = int(v)
		case error:
			m[key] = errClass(v)
		case nil:
			m[key] = -1
		default:
			if key == "ev" { // mon.submit: the queued event (unexported type)
				tn := fmt.Sprintf("%T", v)
				rv := reflect.ValueOf(v)
				switch {
				case strings.Contains(tn, "newConfigEvent"):
					m["kind"] = "newcfg"
					m["serial"] = int(rv.Elem().FieldByName("serial").Uint())
					m["sup"] = rv.Elem().FieldByName("globalCBsSuppressed").Bool()
				case strings.Contains(tn, "watchErrorEvent"):
					m["kind"] = "werr"
					m["err"] = errClassS(errText(rv.Elem().FieldByName("err")))
				default:
					m["kind"] = tn
				}
				continue
			}
			m[key] = v
		}
	}
	return m
}

// onEvent maintains the shadow state (under s.mu).
func (k *kernel) onEvent(g, point string, m map[string]any, gate bool) {
	switch point {
	case "mon.select":
		if b, ok := m["skipVerify"].(bool); ok {
			k.skipNow = b
		}
	case "mon.recv":
		switch m["kind"] {
		case "val":
			if src, ok := m["src"].(int); ok {
				k.lastVal[src] = k.curVal[src]
			}
			if m["blocking"] == true {
				k.monCurRep = k.partner
				if k.partner == "" {
					if src, ok := m["src"].(int); ok {
						k.monCurRep = fmt.Sprintf("r%d", src)
					}
				}
				k.replied[k.monCurRep] = false
			} else {
				k.monCurRep = ""
			}
		case "ctl":
			if len(k.ctl) > 0 {
				k.monCurCtl = k.ctl[0]
				k.ctl = k.ctl[1:]
			}
		}
	case "mon.replied":
		if k.monCurRep != "" {
			k.replied[k.monCurRep] = true
		}
	case "mon.submit":
		if m["res"] == "sent" {
			k.cbq = append(k.cbq, qent{kind: fmt.Sprint(m["kind"])})
		}
	case "api.submit.sent":
		k.cbq = append(k.cbq, qent{kind: k.curKind[g], owner: fmt.Sprintf("%s#%d", g, k.curOp[g])})
	case "cb.recv":
		if len(k.cbq) > 0 {
			k.cbCur = k.cbq[0]
			k.cbq = k.cbq[1:]
		}
	case "cb.unregd":
		k.unregDone[k.cbCur.owner] = true
	case "api.ctl.sent":
		k.ctl = append(k.ctl, fmt.Sprintf("%s#%d", g, k.curOp[g]))
	case "mon.enable":
		k.enDone[k.monCurCtl] = true
	case "mon.events":
		if m["sent"] == true {
			k.evLen++
		}
	case "events.recv":
		k.evLen--
	case "mon.exited":
		k.monExited = true
	}
}

func (k *kernel) pctx(p string) context.Context {
	if c, ok := k.procCtx[p]; ok {
		return c
	}
	return k.newProcCtx(p)
}

func (k *kernel) newProcCtx(p string) context.Context {
	c, cancel := context.WithCancel(k.s.ctx(context.Background(), p))
	k.s.mu.Lock()
	k.procCtx[p] = c
	k.procCancel[p] = cancel
	k.cancelled[p] = false
	k.s.mu.Unlock()
	return c
}

func (k *kernel) viewFields(m map[string]any) []any {
	var out []any
	keys := make([]string, 0, len(m))
	for key := range m {
		keys = append(keys, key)
	}
	sort.Strings(keys)
	for _, key := range keys {
		out = append(out, key, m[key])
	}
	return out
}

// runProc executes one process' operation list.
func (k *kernel) runProc(p string, ops []Op) {
	defer k.wg.Done()
	defer k.s.Final(p, "proc.exit")
	unregs := map[int]dials.UnregisterCBFunc{}
	var lastTok dials.CfgSerial[HCfg]
	haveTok := false
	ci := 0
	if len(p) > 1 {
		fmt.Sscanf(p[1:], "%d", &ci)
	}
	for i, op := range ops {
		if k.stop.Load() {
			return
		}
		ctx := k.newProcCtx(p)
		k.s.mu.Lock()
		k.curOp[p] = i + 1
		k.curKind[p] = op.Op
		k.s.mu.Unlock()
		k.s.Point(ctx, true, "op.pre", "op", op.Op, "n", i+1)
		if k.stop.Load() {
			return
		}
		if op.V != nil {
			k.s.mu.Lock()
			k.curVal[ci] = *op.V
			k.s.mu.Unlock()
		}
		func() {
			defer func() {
				if r := recover(); r != nil {
					k.s.Note(p, "panic", "op", op.Op, "n", i+1, "msg", fmt.Sprint(r))
				}
			}()
			switch op.Op {
			case "val", "block", "err", "done":
				src := k.srcs[ci-1]
				switch op.Op {
				case "val":
					k.s.Note(p, "call", "op", "val", "n", i+1, "src", ci, "x", op.V.X, "y", op.V.Y, "u", op.V.U)
					err := src.wa.ReportNewValue(ctx, mkVal(src.typ.Type(), *op.V))
					k.s.Note(p, "ret", "op", "val", "n", i+1, "src", ci, "res", errClass(err))
				case "block":
					k.s.Note(p, "call", "op", "block", "n", i+1, "src", ci, "x", op.V.X, "y", op.V.Y, "u", op.V.U)
					rv := mkVal(src.typ.Type(), *op.V)
					if k.sc.ReuseBuf {
						rv = src.reused(rv)
					}
					err := src.wa.BlockingReportNewValue(ctx, rv)
					c, tok := k.d.ViewVersion()
					m := map[string]any{}
					k.s.mu.Lock()
					k.cfgFields("cfg", c, m)
					k.s.mu.Unlock()
					sent := err == nil || !strings.Contains(err.Error(), "attempting to submit")
					k.s.Note(p, "ret", append([]any{"op", "block", "n", i + 1, "src", ci, "res", errClass(err), "sent", sent,
						"vserial", int(serialOf(tok))}, k.viewFields(m)...)...)
				case "err":
					k.s.Note(p, "call", "op", "err", "n", i+1, "src", ci)
					err := src.wa.ReportError(ctx, errors.New("src-err"))
					k.s.Note(p, "ret", "op", "err", "n", i+1, "src", ci, "res", errClass(err))
				case "done":
					k.s.Note(p, "call", "op", "done", "n", i+1, "src", ci)
					src.wa.Done(ctx)
					k.s.Note(p, "ret", "op", "done", "n", i+1, "src", ci, "res", "nil")
				}
			case "view":
				c, tok := k.d.ViewVersion()
				lastTok, haveTok = tok, true
				m := map[string]any{}
				k.s.mu.Lock()
				k.cfgFields("cfg", c, m)
				k.s.mu.Unlock()
				k.s.Note(p, "view", append([]any{"n", i + 1, "serial", int(serialOf(tok))}, k.viewFields(m)...)...)
			case "spin":
				dl := time.Now().Add(time.Duration(op.Ms) * time.Millisecond)
				var lastC *HCfg
				lastS := ^uint64(0)
				samples := 0
				for !k.stop.Load() && (samples%64 != 0 || time.Now().Before(dl)) {
					c, tok := k.d.ViewVersion()
					sv := *(*uint64)(unsafe.Pointer(&tok))
					samples++
					if c != lastC || sv != lastS {
						lastC, lastS = c, sv
						m := map[string]any{}
						k.s.mu.Lock()
						k.cfgFields("cfg", c, m)
						k.s.mu.Unlock()
						k.s.Note(p, "view", append([]any{"n", i + 1, "serial", int(sv)}, k.viewFields(m)...)...)
					}
					if !k.s.gated.Load() && samples%256 == 0 {
						runtime.Gosched()
					}
					if k.s.gated.Load() {
						break
					}
				}
				k.s.Note(p, "spun", "n", i+1, "samples", samples)
			case "reg":
				h := 10*ci + i + 1
				tok := dials.CfgSerial[HCfg]{}
				tokvalid := false
				if op.Tok == "last" && haveTok {
					tok, tokvalid = lastTok, true
				}
				if op.Block {
					k.s.mu.Lock()
					k.blockH[h] = true
					k.s.mu.Unlock()
				}
				k.s.Note(p, "call", "op", "reg", "n", i+1, "h", h, "tok", int(serialOf(tok)), "tokvalid", tokvalid, "block", op.Block)
				u := k.d.RegisterCallback(ctx, tok, k.handleCB(h))
				if u != nil {
					unregs[h] = u
				}
				k.s.Note(p, "ret", "op", "reg", "n", i+1, "h", h, "ok", u != nil)
			case "unreg":
				u := unregs[op.H]
				if u == nil {
					k.s.Note(p, "call", "op", "unreg", "n", i+1, "h", op.H, "nofunc", true)
					k.s.Note(p, "ret", "op", "unreg", "n", i+1, "h", op.H, "ok", false, "nofunc", true)
					return
				}
				k.s.Note(p, "call", "op", "unreg", "n", i+1, "h", op.H, "nofunc", false)
				ok := u(ctx)
				k.s.Note(p, "ret", "op", "unreg", "n", i+1, "h", op.H, "ok", ok, "nofunc", false)
			case "enable":
				k.s.Note(p, "call", "op", "enable", "n", i+1)
				c, tok, err := k.d.EnableVerification(ctx)
				m := map[string]any{}
				k.s.mu.Lock()
				k.cfgFields("cfg", c, m)
				k.s.mu.Unlock()
				k.s.Note(p, "ret", append([]any{"op", "enable", "n", i + 1, "res", errClass(err), "serial", int(serialOf(tok))}, k.viewFields(m)...)...)
			case "events":
				select {
				case c := <-k.d.Events():
					m := map[string]any{}
					k.s.mu.Lock()
					k.cfgFields("cfg", c, m)
					k.s.mu.Unlock()
					k.s.Note(p, "events.recv", append([]any{"n", i + 1}, k.viewFields(m)...)...)
				case <-ctx.Done():
					k.s.Note(p, "events.none", "n", i+1)
				}
			}
		}()
	}
}

func serialOf(tok dials.CfgSerial[HCfg]) uint64 {
	return reflect.ValueOf(tok).FieldByName("s").Uint()
}

func (k *kernel) cbArgs(old, nw *HCfg) []any {
	m := map[string]any{}
	k.s.mu.Lock()
	k.cfgFields("old", old, m)
	k.cfgFields("new", nw, m)
	k.s.mu.Unlock()
	return k.viewFields(m)
}

func (k *kernel) handleCB(h int) dials.NewConfigHandler[HCfg] {
	return func(ctx context.Context, old, nw *HCfg) {
		k.s.Point(ctx, true, "cbenter", append([]any{"which", "h", "h", h}, k.cbArgs(old, nw)...)...)
		k.s.Note("cb", "cbexit", "which", "h", "h", h)
	}
}

func (k *kernel) onNew(ctx context.Context, old, nw *HCfg) {
	k.s.Point(ctx, true, "cbenter", append([]any{"which", "onnew", "h", 0}, k.cbArgs(old, nw)...)...)
	k.s.Note("cb", "cbexit", "which", "onnew", "h", 0)
}

func (k *kernel) onErr(ctx context.Context, err error, old, nw *HCfg) {
	k.s.Point(ctx, true, "cbenter", append([]any{"which", "onerr", "h", 0, "err", errClass(err)}, k.cbArgs(old, nw)...)...)
	k.s.Note("cb", "cbexit", "which", "onerr", "h", 0)
}

// ---- enabledness --------------------------------------------------------

func (k *kernel) jointEnabled(r string) bool {
	return k.s.At("mon") == "mon.select" && k.s.At(r) == "rep.send.pre" && !k.ctxDone && len(k.ctl) == 0 && !k.cancelled[r]
}

func (k *kernel) enabled(g string) bool {
	p := k.s.At(g)
	if p == "" {
		return false
	}
	key := fmt.Sprintf("%s#%d", g, k.curOp[g])
	switch {
	case g == "mon":
		if p == "mon.select" {
			return k.ctxDone || len(k.ctl) > 0
		}
		return true
	case g == "cb":
		switch p {
		case "cb.idle":
			return len(k.cbq) > 0 || k.monExited
		case "cbenter":
			h, _ := k.s.kvAt(g)["h"].(int)
			return !k.blockH[h]
		}
		return true
	case p == "op.pre":
		if k.curKind[g] == "events" {
			return k.evLen > 0 || k.cancelled[g]
		}
		return true
	case p == "rep.send.pre":
		return k.cancelled[g]
	case p == "rep.await.pre":
		return k.replied[g] || k.cancelled[g]
	case p == "api.submit.pre":
		capn := k.sc.CbCap
		if capn <= 0 {
			capn = 64
		}
		return len(k.cbq) < capn || k.cancelled[g] || k.monExited
	case p == "api.await.pre":
		return k.unregDone[key] || k.cancelled[g] || k.monExited
	case p == "api.ctl.pre":
		return len(k.ctl) < 3 || k.cancelled[g]
	case p == "api.ctl.await":
		return k.enDone[key] || k.cancelled[g]
	}
	return true
}

type move struct {
	kind string // step | joint | cancel
	g    string
}

func (k *kernel) moves(withCancel bool) []move {
	var out []move
	gs := make([]string, 0, len(k.s.parked))
	for g := range k.s.parked {
		gs = append(gs, g)
	}
	sort.Strings(gs)
	for _, g := range gs {
		if k.enabled(g) {
			out = append(out, move{"step", g})
		}
		if strings.HasPrefix(g, "r") && k.jointEnabled(g) {
			out = append(out, move{"joint", g})
		}
	}
	if withCancel {
		ok := map[string]bool{}
		for _, c := range k.sc.CancelOK {
			ok[c] = true
		}
		if ok["ctx"] && !k.ctxDone {
			out = append(out, move{"cancel", "ctx"})
		}
		for _, g := range gs {
			if g == "mon" || g == "cb" || k.cancelled[g] || k.s.At(g) == "op.pre" {
				continue
			}
			if (strings.HasPrefix(g, "r") && ok["rep"]) || (strings.HasPrefix(g, "c") && ok["cli"]) {
				out = append(out, move{"cancel", g})
			}
		}
	}
	return out
}

const watchdog = 10 * time.Second

func (k *kernel) do(m move) error {
	k.steps++
	item := m.g
	switch m.kind {
	case "cancel":
		item = "!" + m.g
	case "joint":
		item = "mon+" + m.g
	}
	k.s.Note("env", "move", "item", item)
	switch m.kind {
	case "cancel":
		k.s.mu.Lock()
		if m.g == "ctx" {
			k.ctxDone = true
		} else {
			k.cancelled[m.g] = true
		}
		k.s.mu.Unlock()
		k.s.Note("env", "cancel", "which", m.g)
		if m.g == "ctx" {
			k.cancelCfg()
		} else {
			k.procCancel[m.g]()
		}
		return nil
	case "joint":
		k.s.mu.Lock()
		k.partner = m.g
		k.s.mu.Unlock()
		err := k.s.Step(watchdog, "mon", m.g)
		k.s.mu.Lock()
		k.partner = ""
		k.s.mu.Unlock()
		return err
	default:
		return k.s.Step(watchdog, m.g)
	}
}

// resolve maps a plan item to a move that is enabled now (ok=false: skip it).
func (k *kernel) resolve(item string) (move, bool) {
	if strings.HasPrefix(item, "!") {
		g := item[1:]
		if g == "ctx" {
			if k.ctxDone {
				return move{}, false
			}
			return move{"cancel", "ctx"}, true
		}
		if k.cancelled[g] || k.s.At(g) == "" || k.s.At(g) == "op.pre" {
			return move{}, false // only a call in progress can have its context cancelled
		}
		return move{"cancel", g}, true
	}
	if strings.HasPrefix(item, "mon+") {
		r := item[4:]
		if k.jointEnabled(r) {
			return move{"joint", r}, true
		}
		return move{}, false
	}
	if strings.HasPrefix(item, "r") && k.jointEnabled(item) {
		return move{"joint", item}, true
	}
	if k.enabled(item) {
		return move{"step", item}, true
	}
	return move{}, false
}

func (k *kernel) oracle() {
	// Fresh Config over static sources holding each source's latest received value.
	if !k.sc.Oracle || k.s.At("mon") != "mon.select" || k.s.parked["mon"] == k.oracleAt {
		return
	}
	k.oracleAt = k.s.parked["mon"]
	inOracle.Store(true)
	defer inOracle.Store(false)
	def := mkDef(k.sc.Def, k.sc.PtrY)
	var srcs []dials.Source
	k.s.mu.Lock()
	skip := k.skipNow
	for i := range k.srcs {
		v := k.lastVal[i+1]
		srcs = append(srcs, &static.StringSource{Decoder: valDecoder{v}})
	}
	k.s.mu.Unlock()
	d, err := dials.Params[HCfg]{SkipInitialVerification: skip}.Config(context.Background(), def, srcs...)
	if err != nil {
		k.s.Note("oracle", "fresh", "ok", false, "x", 0, "y", 0, "res", errClass(err))
		return
	}
	c := d.View()
	k.s.Note("oracle", "fresh", "ok", true, "x", c.X, "y", c.y(), "res", "nil")
}

type valDecoder struct{ v ValSpec }

func (vd valDecoder) Decode(_ io.Reader, t *dials.Type) (reflect.Value, error) {
	return mkVal(t.Type(), vd.v), nil
}

func (k *kernel) drive() error {
	procs := make([]string, 0, len(k.sc.Procs))
	for p := range k.sc.Procs {
		procs = append(procs, p)
	}
	sort.Strings(procs)
	max := k.sc.MaxSteps
	if max <= 0 {
		max = 400
	}
	switch k.sc.Mode {
	case "plan":
		for _, item := range k.sc.Schedule {
			m, ok := k.resolve(item)
			if !ok {
				k.skipped++
				continue
			}
			if err := k.do(m); err != nil {
				return err
			}
			k.oracle()
		}
	case "random":
		for k.steps < max {
			ms := k.moves(false)
			var cm []move
			if k.sc.PCancel > 0 && k.rng.Float64() < k.sc.PCancel {
				all := k.moves(true)
				for _, m := range all {
					if m.kind == "cancel" {
						cm = append(cm, m)
					}
				}
			}
			if len(cm) > 0 {
				ms = cm
			}
			if len(k.sc.Starve) > 0 {
				var fed []move
				for _, m := range ms {
					starved := false
					for _, g := range k.sc.Starve {
						if m.g == g {
							starved = true
						}
					}
					if !starved {
						fed = append(fed, m)
					}
				}
				if len(fed) > 0 {
					ms = fed
				}
			}
			if len(ms) == 0 {
				break
			}
			if err := k.do(ms[k.rng.Intn(len(ms))]); err != nil {
				return err
			}
			k.oracle()
		}
	}
	// drain deterministically (round robin over enabled moves)
	for k.steps < 4*max {
		ms := k.moves(false)
		if len(ms) == 0 {
			break
		}
		if err := k.do(ms[0]); err != nil {
			return err
		}
		k.oracle()
	}
	return nil
}

func maxSteps(sc Scenario) int {
	if sc.MaxSteps <= 0 {
		return 400
	}
	return sc.MaxSteps
}

func runKernelScenario(sc Scenario, out *bufio.Writer) {
	s := newSched(sc.ID, out)
	k := &kernel{sc: sc, s: s, rng: rand.New(rand.NewSource(sc.Seed)), cfgIDs: map[*HCfg]int{},
		cancelled: map[string]bool{}, replied: map[string]bool{}, unregDone: map[string]bool{}, enDone: map[string]bool{},
		curOp: map[string]int{}, curKind: map[string]string{}, blockH: map[int]bool{}, lastVal: map[int]ValSpec{},
		curVal: map[int]ValSpec{}, procCtx: map[string]context.Context{}, procCancel: map[string]context.CancelFunc{}}
	s.rewrite = k.rewrite
	s.onEvent = k.onEvent
	gated := sc.Mode != "free"
	s.gated.Store(gated)
	if !gated {
		s.jitter = 7
		s.rnd = uint64(sc.Seed)
	}
	curSched.Store(s)
	dials.VerifHook = hook
	dials.VerifCbCap = sc.CbCap

	hdr, _ := json.Marshal(sc)
	var hm map[string]any
	json.Unmarshal(hdr, &hm)
	s.Note("env", "begin", "mode", sc.Mode, "seed", int(sc.Seed), "skip", sc.Skip, "delay", sc.Delay, "suppress", sc.Suppress,
		"onnew", sc.OnNew, "onerr", sc.OnErr, "cbcap", sc.CbCap, "nsrc", len(sc.Init), "defx", sc.Def.X, "defy", sc.Def.Y,
		"scenario", hm)
	out.Flush()

	root, cancel := context.WithCancel(s.ctx(context.Background(), ""))
	k.rootCtx, k.cancelCfg = root, cancel
	var srcs []dials.Source
	for i, iv := range sc.Init {
		f := &fsrc{idx: i + 1, init: iv}
		k.srcs = append(k.srcs, f)
		srcs = append(srcs, f)
		k.lastVal[i+1] = iv
		s.Note("env", "init", "src", i+1, "x", iv.X, "y", iv.Y, "u", iv.U)
	}
	p := dials.Params[HCfg]{SkipInitialVerification: sc.Skip, DelayInitialVerification: sc.Delay,
		CallGlobalCallbacksAfterVerificationEnabled: sc.Suppress}
	if sc.OnNew {
		p.OnNewConfig = k.onNew
	}
	if sc.OnErr {
		p.OnWatchedError = k.onErr
	}
	ptrYNow.Store(sc.PtrY)
	def := mkDef(sc.Def, sc.PtrY)
	if gated && len(srcs) > 0 {
		s.running += 2 // monitor and callback goroutine park at their first gate
	}
	d, err := p.Config(root, def, srcs...)
	if err != nil {
		s.running = 0
		s.Note("env", "config", "ok", false, "res", errClass(err), "cfg", -1, "cfgx", 0, "cfgy", 0)
		s.Note("env", "final", "leaked", 0, "hung", 0, "panics", 0, "steps", 0, "skipped", 0, "drained", true)
		out.Flush()
		cancel()
		return
	}
	k.d = d
	{
		m := map[string]any{}
		s.mu.Lock()
		k.cfgFields("cfg", d.View(), m)
		s.mu.Unlock()
		s.Note("env", "config", append([]any{"ok", true, "res", "nil"}, k.viewFields(m)...)...)
	}
	var derr error
	if gated {
		derr = s.settle(watchdog)
	}
	// start the processes
	procs := make([]string, 0, len(sc.Procs))
	for pn := range sc.Procs {
		procs = append(procs, pn)
	}
	sort.Strings(procs)
	for _, pn := range procs {
		k.wg.Add(1)
		if gated {
			s.running++
		}
		go k.runProc(pn, sc.Procs[pn])
	}
	if gated && derr == nil {
		derr = s.settle(watchdog)
	}
	if gated && derr == nil {
		derr = k.drive()
	}
	hung := 0
	if derr != nil {
		hung = 1
		s.anomaly("hang", fmt.Sprintf("%v; parked: %s; stacks:\n%s", derr, s.where(), strings.Join(dialsGoroutines(), "\n\n")))
	}
	if !gated {
		// free mode: let the processes run to completion (bounded)
		done := make(chan struct{})
		go func() { k.wg.Wait(); close(done) }()
		select {
		case <-done:
		case <-time.After(3 * time.Second):
		}
		time.Sleep(2 * time.Millisecond)
	}
	// quiescence report
	s.mu.Lock()
	allDone := true
	for _, pn := range procs {
		if !s.done[pn] {
			allDone = false
		}
	}
	drained := gated && len(k.cbq) == 0 && allDone && (s.At("cb") == "cb.idle" || s.done["cb"]) && (s.At("mon") == "mon.select" || k.monExited)
	// a reporter that cannot finish although nothing was cancelled and the monitor is alive: the monitor stopped serving its
	// sources (reports never wait for callbacks; a blocked callback may only hold up register / unregister calls)
	var stalled []string
	if gated && derr == nil && !k.monExited && !k.ctxDone && k.steps < 4*maxSteps(sc) {
		for _, pn := range procs {
			if strings.HasPrefix(pn, "r") && !s.done[pn] && !k.cancelled[pn] {
				stalled = append(stalled, pn+" at "+s.At(pn))
			}
		}
	}
	monAt := s.At("mon")
	// likewise an EnableVerification call that is never answered although the monitor sits idle at its select
	var enStalled []string
	// (derr != nil: the scheduler released the monitor to take a control message and it never reached its next gate)
	if gated && !k.monExited && !k.ctxDone && (derr == nil && monAt == "mon.select" && k.steps < 4*maxSteps(sc) || derr != nil && monAt == "") {
		for _, pn := range procs {
			if at := s.At(pn); k.curKind[pn] == "enable" && !s.done[pn] && !k.cancelled[pn] && (at == "" || at == "api.ctl.await") {
				enStalled = append(enStalled, pn+" at "+s.At(pn))
			}
		}
	}
	s.mu.Unlock()
	if len(enStalled) > 0 {
		s.anomaly("enstall", fmt.Sprintf("no move is enabled, the monitor is alive and idle, nothing was cancelled, but EnableVerification calls are not answered: %v", enStalled))
	}
	if len(stalled) > 0 {
		s.anomaly("stall", fmt.Sprintf("no move is enabled, the monitor is alive (at %q) and nothing was cancelled, but reporters cannot finish: %v", monAt, stalled))
	}
	s.Note("env", "quiesce", "drained", drained, "procsdone", allDone)

	// teardown: cancel everything, open the gates, everything must exit
	s.Note("env", "teardown")
	k.stop.Store(true)
	s.ungate()
	for _, c := range k.procCancel {
		c()
	}
	cancel()
	done := make(chan struct{})
	go func() { k.wg.Wait(); close(done) }()
	select {
	case <-done:
	case <-time.After(5 * time.Second):
		hung++
		s.anomaly("hang", "process goroutines did not return after all contexts were cancelled; stacks:\n"+strings.Join(dialsGoroutines(), "\n\n"))
	}
	leaked := waitNoDialsGoroutines(3 * time.Second)
	detail := ""
	if len(leaked) > 0 {
		detail = strings.Join(leaked, "\n\n")
	}
	s.Note("env", "final", "leaked", len(leaked), "hung", hung, "steps", k.steps, "skipped", k.skipped, "drained", drained, "detail", detail)
	s.active.Store(false)
	out.Flush()
}

func kernelMain(args []string) {
	if len(args) < 2 {
		fatalf("usage: vh kernel <scenarios.ndjson> <trace-out.ndjson>")
	}
	in, err := os.Open(args[0])
	if err != nil {
		fatalf("%v", err)
	}
	outf, err := os.Create(args[1])
	if err != nil {
		fatalf("%v", err)
	}
	out := bufio.NewWriterSize(outf, 1<<16)
	scn := bufio.NewScanner(in)
	scn.Buffer(make([]byte, 1<<20), 1<<24)
	n := 0
	for scn.Scan() {
		line := strings.TrimSpace(scn.Text())
		if line == "" {
			continue
		}
		var sc Scenario
		if err := json.Unmarshal([]byte(line), &sc); err != nil {
			fatalf("bad scenario: %v", err)
		}
		runKernelScenario(sc, out)
		n++
	}
	out.Flush()
	outf.Close()
	fmt.Printf("ran %d scenarios\n", n)
}
