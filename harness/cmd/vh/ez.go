package main

// ez driver (C18): executes cases emitted by TLC from spec/Ez.tla against the
// real ez entry points with real files, real environment variables and a
// fresh flag set, and compares what a program can observe with the model.

import (
	"bufio"
	"context"
	"encoding/json"
	stdflag "flag"
	"fmt"
	"os"
	"path/filepath"
	"reflect"
	"sort"
	"strings"
	"sync"
	"sync/atomic"
	"time"

	"github.com/vimeo/dials"
	"github.com/vimeo/dials/ez"
	"github.com/vimeo/dials/sources/flag"
	"github.com/vimeo/dials/tagformat/caseconversion"
)

type ECfg struct {
	Cfgfile string `dials:"cfgfile"`
	A       int    `dials:"a"`
	Net     struct {
		Cap int `dials:"cap"`
	} `dials:"net"`
	R   int   `dials:"r"`
	B   int   `dials:"b" dialsalias:"old_bee"`
	Lim *ELim `dials:"lim"`
	// Tags is only ever set by the file (to the empty list, when the case says so); its default is not empty
	Tags map[string]struct{} `dials:"tags"`
}

// ELim sits behind a pointer whose default is non-nil: file values are merged into it field by field.
type ELim struct {
	Max int `dials:"max"`
}

// ezPathAlways: ConfigPath reports "use this path" whatever the path is (the README pattern); set per case
var ezPathAlways atomic.Bool

func (c *ECfg) ConfigPath() (string, bool) { return c.Cfgfile, c.Cfgfile != "" || ezPathAlways.Load() }

var ezVerifyMu sync.Mutex
var ezVerifyLog []map[string]int

func (c *ECfg) leaves() map[string]int {
	m := 0
	if c.Lim != nil {
		m = c.Lim.Max
	}
	return map[string]int{"a": c.A, "c": c.Net.Cap, "r": c.R, "b": c.B, "m": m}
}

func (c *ECfg) Verify() error {
	ezVerifyMu.Lock()
	ezVerifyLog = append(ezVerifyLog, c.leaves())
	ezVerifyMu.Unlock()
	if c.R == 0 {
		return fmt.Errorf("verify-bad: r is required")
	}
	for k, v := range c.leaves() {
		if v%10 == 9 {
			return fmt.Errorf("verify-bad: %s=%d", k, v)
		}
	}
	return nil
}

type ezChange struct {
	Leaves    []string       `json:"leaves"`
	State     string         `json:"state"`
	FBad      bool           `json:"fbad"`
	Installed bool           `json:"installed"`
	View      map[string]int `json:"view"`
	Err       string         `json:"err"`
}

type ezCase struct {
	ID     string              `json:"id"`
	Leaves []string            `json:"leaves"`
	Prov   map[string][]string `json:"prov"`
	Path   []string            `json:"path"`
	FState string              `json:"fstate"`
	Bad    string              `json:"bad"`
	Fmt    string              `json:"fmt"`
	Watch  bool                `json:"watch"`
	CmdLn  bool                `json:"cmdline"` // use the process-wide flag.CommandLine with an application-registered flag
	FOpt   struct {
		Alias     bool   `json:"alias"` // the file writes leaf b under its alias name
		Enc       string `json:"enc"`   // "kebab": Params.FileFieldNameEncoder = kebab-case (dials tags are lower_snake)
		EmptySet  bool   `json:"emptyset"`
		EmptyPath bool   `json:"emptypath"` // the winning path provider supplies "" and ConfigPath still reports ok // every version of the file assigns [] to the set-typed leaf Tags
	} `json:"fopt"`
	Ran struct {
		Done    bool             `json:"done"`
		Err     string           `json:"err"`
		Verify  []map[string]int `json:"verify"`
		Exposed int              `json:"exposed"`
	} `json:"ran"`
	View0   map[string]int `json:"view0"`
	Changes []ezChange     `json:"changes"`
}

var ezRank = map[string]int{"def": 1, "file": 2, "env": 3, "flag": 4}

func (c *ezCase) val(layer, leaf string, fbad bool) int {
	idx := 0
	for i, l := range c.Leaves {
		if l == leaf {
			idx = i + 1
		}
	}
	v := 100*ezRank[layer] + 10*idx + 1
	if idx == 1 && ((c.Bad == layer && layer != "file") || (layer == "file" && fbad)) {
		v += 8
	}
	return v
}

func has(xs []string, x string) bool {
	for _, y := range xs {
		if y == x {
			return true
		}
	}
	return false
}

func setLeaf(c *ECfg, leaf string, v int) {
	switch leaf {
	case "a":
		c.A = v
	case "c":
		c.Net.Cap = v
	case "r":
		c.R = v
	case "b":
		c.B = v
	case "m":
		if c.Lim == nil {
			c.Lim = &ELim{}
		}
		c.Lim.Max = v
	}
}

var ezEnvName = map[string]string{"a": "A", "c": "NET_CAP", "r": "R", "b": "B", "m": "LIM_MAX"}
var ezFlagName = map[string]string{"a": "a", "c": "net-cap", "r": "r", "b": "b", "m": "lim-max"}

// ezBKey: the key under which the file writes leaf b
func (c *ezCase) ezBKey() string {
	k := "b"
	if c.FOpt.Alias {
		k = "old_bee"
		if c.FOpt.Enc == "kebab" {
			k = "old-bee"
		}
	}
	if c.FOpt.EmptySet {
		k += "+tags" // (carried along to ezFileText)
	}
	return k
}

func ezFileText(format string, vals map[string]int, malformed bool, bkey string) string {
	emptySet := strings.HasSuffix(bkey, "+tags")
	bkey = strings.TrimSuffix(bkey, "+tags")
	text := ezFileTextB(format, vals, malformed, bkey)
	if !emptySet || malformed {
		return text
	}
	switch format {
	case "toml":
		return "tags = []\n" + text
	case "yaml":
		if text == "{}\n" {
			return "tags: []\n"
		}
		return "tags: []\n" + text
	}
	if strings.HasPrefix(text, "{}") {
		return "{\"tags\": []}\n"
	}
	return "{\"tags\": [], " + text[1:]
}

func ezFileTextB(format string, vals map[string]int, malformed bool, bkey string) string {
	if v, ok := vals["b"]; ok && bkey != "b" {
		vals = copyVals(vals)
		delete(vals, "b")
		vals[bkey] = v
	}
	return ezFileText0(format, vals, malformed, bkey)
}

func copyVals(m map[string]int) map[string]int {
	o := map[string]int{}
	for k, v := range m {
		o[k] = v
	}
	return o
}

func ezFileText0(format string, vals map[string]int, malformed bool, bkey string) string {
	if malformed {
		switch format {
		case "yaml":
			return "a: [1, 2\n  b: {\n"
		case "toml":
			return "a = = 1\n"
		}
		return "{\"a\": 1,, }"
	}
	switch format {
	case "toml":
		var b strings.Builder
		for _, k := range []string{"a", "r", bkey} {
			if v, ok := vals[k]; ok {
				fmt.Fprintf(&b, "%s = %d\n", k, v)
			}
		}
		if v, ok := vals["c"]; ok {
			fmt.Fprintf(&b, "[net]\ncap = %d\n", v)
		}
		if v, ok := vals["m"]; ok {
			fmt.Fprintf(&b, "[lim]\nmax = %d\n", v)
		}
		return b.String()
	case "yaml":
		var b strings.Builder
		for _, k := range []string{"a", "r", bkey} {
			if v, ok := vals[k]; ok {
				fmt.Fprintf(&b, "%s: %d\n", k, v)
			}
		}
		if v, ok := vals["c"]; ok {
			fmt.Fprintf(&b, "net:\n  cap: %d\n", v)
		}
		if v, ok := vals["m"]; ok {
			fmt.Fprintf(&b, "lim:\n  max: %d\n", v)
		}
		if b.Len() == 0 {
			return "{}\n"
		}
		return b.String()
	}
	m := map[string]any{}
	for _, k := range []string{"a", "r", bkey} {
		if v, ok := vals[k]; ok {
			m[k] = v
		}
	}
	if v, ok := vals["c"]; ok {
		m["net"] = map[string]any{"cap": v}
	}
	if v, ok := vals["m"]; ok {
		m["lim"] = map[string]any{"max": v}
	}
	b, _ := json.Marshal(m)
	return string(b) + "\n"
}

func atomicWrite(path, text string) {
	tmp := path + ".tmp-w"
	if err := os.WriteFile(tmp, []byte(text), 0o644); err != nil {
		panic(err)
	}
	if err := os.Rename(tmp, path); err != nil {
		panic(err)
	}
}

type ezMis struct {
	Step   int    `json:"step"`
	Kind   string `json:"kind"` // prop | model | panic
	Detail string `json:"detail"`
}

func showLeaves(m map[string]int, leaves []string) string {
	var parts []string
	ks := append([]string{}, leaves...)
	sort.Strings(ks)
	for _, k := range ks {
		parts = append(parts, fmt.Sprintf("%s=%d", k, m[k]))
	}
	return "{" + strings.Join(parts, " ") + "}"
}

func sameLeaves(a, b map[string]int, leaves []string) bool {
	for _, k := range leaves {
		if a[k] != b[k] {
			return false
		}
	}
	return true
}

func ezErrClass(err error) string {
	if err == nil {
		return ""
	}
	if strings.Contains(err.Error(), "verify-bad") {
		return "verify"
	}
	return "file"
}

func runEzCase(c ezCase, dir string) (mis []ezMis) {
	step := 0
	defer func() {
		if r := recover(); r != nil {
			mis = append(mis, ezMis{step, "panic", fmt.Sprint(r)})
		}
	}()
	ctx, cancel := context.WithCancel(context.Background())
	defer func() {
		cancel()
		if c.Watch {
			// the watcher releases its inotify instance asynchronously; the next case must not start before
			if left := waitNoDialsGoroutines(10 * time.Second); len(left) > 0 {
				mis = append(mis, ezMis{step, "leak", fmt.Sprintf("%d library goroutines still running 10 s after the context was cancelled", len(left))})
			}
		}
	}()
	path := filepath.Join(dir, "cfg-"+c.ID+"."+c.Fmt)
	os.Remove(path)
	// the file
	fileVals := map[string]int{}
	for _, l := range c.Leaves {
		if has(c.Prov[l], "file") {
			fileVals[l] = c.val("file", l, c.Bad == "file")
		}
	}
	if len(c.Path) > 0 {
		switch c.FState {
		case "ok":
			atomicWrite(path, ezFileText(c.Fmt, fileVals, false, c.ezBKey()))
		case "malformed":
			atomicWrite(path, ezFileText(c.Fmt, fileVals, true, c.ezBKey()))
		}
	}
	// defaults, environment, flags
	def := &ECfg{Lim: &ELim{}, Tags: map[string]struct{}{"d": {}}}
	var args []string
	for _, n := range []string{"A", "NET_CAP", "R", "B", "LIM_MAX", "CFGFILE"} {
		os.Unsetenv(n)
	}
	for _, l := range c.Leaves {
		if has(c.Prov[l], "def") {
			setLeaf(def, l, c.val("def", l, false))
		}
		if has(c.Prov[l], "env") {
			os.Setenv(ezEnvName[l], fmt.Sprint(c.val("env", l, false)))
		}
		if has(c.Prov[l], "flag") {
			args = append(args, fmt.Sprintf("--%s=%d", ezFlagName[l], c.val("flag", l, false)))
		}
	}
	// the path comes from the highest of def < env < flag; lower layers point at a file that does not exist
	top := ""
	for _, L := range []string{"def", "env", "flag"} {
		if has(c.Path, L) {
			top = L
		}
	}
	ezPathAlways.Store(c.FOpt.EmptyPath)
	defer ezPathAlways.Store(false)
	for _, L := range c.Path {
		p := filepath.Join(dir, "wrong-"+L+"."+c.Fmt)
		if L == top {
			p = path
			if c.FOpt.EmptyPath {
				p = ""
			}
		}
		switch L {
		case "def":
			def.Cfgfile = p
		case "env":
			os.Setenv("CFGFILE", p)
		case "flag":
			args = append(args, "--cfgfile="+p)
		}
	}
	defer func() {
		for _, n := range []string{"A", "NET_CAP", "R", "B", "LIM_MAX", "CFGFILE"} {
			os.Unsetenv(n)
		}
	}()
	var fsrc dials.Source
	if c.CmdLn {
		// the application registered one of the flags itself before handing over to ez (explicitly supported)
		fs := stdflag.NewFlagSet("prog", stdflag.ContinueOnError)
		fs.Int(ezFlagName[c.Leaves[0]], def.leaves()[c.Leaves[0]], "registered by the application")
		stdflag.CommandLine = fs
		os.Args = append([]string{"prog"}, args...)
	} else {
		fset, ferr := flag.NewSetWithArgs(flag.DefaultFlagNameConfig(), &ECfg{Lim: &ELim{}}, args)
		if ferr != nil {
			panic("flag set: " + ferr.Error())
		}
		fsrc = fset
	}
	ezVerifyMu.Lock()
	ezVerifyLog = nil
	ezVerifyMu.Unlock()
	var mu sync.Mutex
	var newCfgs [][2]map[string]int
	nerr := 0
	params := ez.Params[ECfg]{WatchConfigFile: c.Watch, FlagSource: fsrc,
		OnNewConfig: func(_ context.Context, o, n *ECfg) {
			mu.Lock()
			newCfgs = append(newCfgs, [2]map[string]int{o.leaves(), n.leaves()})
			mu.Unlock()
		},
		OnWatchedError: func(context.Context, error, *ECfg, *ECfg) { mu.Lock(); nerr++; mu.Unlock() }}
	if c.FOpt.Enc == "kebab" {
		params.DialsTagNameDecoder = caseconversion.DecodeLowerSnakeCase
		params.FileFieldNameEncoder = caseconversion.EncodeKebabCase
	}
	var d *dials.Dials[ECfg]
	var err error
	switch c.Fmt {
	case "json":
		d, err = ez.JSONConfigEnvFlag(ctx, def, params)
	case "yaml":
		d, err = ez.YAMLConfigEnvFlag(ctx, def, params)
	case "toml":
		d, err = ez.TOMLConfigEnvFlag(ctx, def, params)
	case "cue":
		d, err = ez.CueConfigEnvFlag(ctx, def, params)
	default:
		d, err = ez.FileExtensionDecoderConfigEnvFlag(ctx, def, params)
	}
	got := ezErrClass(err)
	ezVerifyMu.Lock()
	vlog := append([]map[string]int{}, ezVerifyLog...)
	ezVerifyMu.Unlock()
	// Verify never sees anything but the full stack
	if len(c.Ran.Verify) == 1 {
		for _, v := range vlog {
			if !sameLeaves(v, c.Ran.Verify[0], c.Leaves) {
				mis = append(mis, ezMis{0, "prop", fmt.Sprintf("Verify was called on %s, the full stack is %s", showLeaves(v, c.Leaves), showLeaves(c.Ran.Verify[0], c.Leaves))})
				break
			}
		}
		if len(vlog) != 1 {
			mis = append(mis, ezMis{0, "model", fmt.Sprintf("Verify was called %d times, the model says once", len(vlog))})
		}
	} else if len(vlog) != 0 {
		mis = append(mis, ezMis{0, "prop", fmt.Sprintf("Verify was called on %s although the config file could not be read", showLeaves(vlog[0], c.Leaves))})
	}
	if (got == "") != (c.Ran.Err == "") {
		mis = append(mis, ezMis{0, "prop", fmt.Sprintf("entry point returned error %q (%v), expected %q", got, err, c.Ran.Err)})
		return
	}
	if got != c.Ran.Err {
		mis = append(mis, ezMis{0, "model", fmt.Sprintf("entry point returned a %q error (%v), the model says %q", got, err, c.Ran.Err)})
	}
	if err != nil {
		return
	}
	// the set-typed leaf: empty while a usable file that assigns [] to it is stacked, else its default
	tagsWant := func(fileStacked bool) string {
		if c.FOpt.EmptySet && fileStacked {
			return "[]"
		}
		return "[d]"
	}
	tagsOf := func(v *ECfg) string {
		ks := make([]string, 0, len(v.Tags))
		for k := range v.Tags {
			ks = append(ks, k)
		}
		sort.Strings(ks)
		if v.Tags == nil {
			return "nil"
		}
		return fmt.Sprint(ks)
	}
	fileStacked := len(c.Path) > 0 && c.FState == "ok"
	if got := tagsOf(d.View()); got != tagsWant(fileStacked) {
		mis = append(mis, ezMis{0, "prop", fmt.Sprintf("first visible config: set-typed leaf is %s, defaults<file gives %s (the file assigns []: %v)", got, tagsWant(fileStacked), c.FOpt.EmptySet && fileStacked)})
	}
	v0 := d.View().leaves()
	if !sameLeaves(v0, c.View0, c.Leaves) {
		mis = append(mis, ezMis{0, "prop", fmt.Sprintf("first visible config %s, defaults<file<env<flags gives %s", showLeaves(v0, c.Leaves), showLeaves(c.View0, c.Leaves))})
	}
	select {
	case e := <-d.Events():
		mis = append(mis, ezMis{0, "prop", fmt.Sprintf("Events() exposed %s before any file change", showLeaves(e.leaves(), c.Leaves))})
	default:
	}
	time.Sleep(200 * time.Microsecond)
	mu.Lock()
	if len(newCfgs) != 0 {
		mis = append(mis, ezMis{0, "prop", fmt.Sprintf("OnNewConfig was called with %s before any file change", showLeaves(newCfgs[0][1], c.Leaves))})
	}
	mu.Unlock()
	// later file changes (watching)
	cur := c.View0
	for i, ch := range c.Changes {
		step = i + 1
		vals := map[string]int{}
		for _, l := range ch.Leaves {
			vals[l] = c.val("file", l, ch.FBad)
		}
		mu.Lock()
		nerr0, ncb0 := nerr, len(newCfgs)
		mu.Unlock()
		atomicWrite(path, ezFileText(c.Fmt, vals, ch.State != "ok", c.ezBKey()))
		deadline := time.Now().Add(20 * time.Second) // (only used up when the change never shows: a loaded machine must not look like a lost event)
		ok := false
		for time.Now().Before(deadline) {
			mu.Lock()
			ne, nc := nerr, len(newCfgs)
			mu.Unlock()
			if ch.Installed {
				if sameLeaves(d.View().leaves(), ch.View, c.Leaves) && (nc > ncb0 || sameLeaves(cur, ch.View, c.Leaves)) {
					ok = true
					break
				}
			} else if ne > nerr0 {
				ok = true
				break
			}
			time.Sleep(200 * time.Microsecond)
		}
		now := d.View().leaves()
		if !sameLeaves(now, ch.View, c.Leaves) {
			mis = append(mis, ezMis{step, "prop", fmt.Sprintf("after file change %d the view is %s, re-stacking under defaults<file<env<flags gives %s", i+1, showLeaves(now, c.Leaves), showLeaves(ch.View, c.Leaves))})
		} else if !ok {
			mis = append(mis, ezMis{step, "model", fmt.Sprintf("file change %d: expected callback did not arrive (installed=%v)", i+1, ch.Installed)})
		}
		if ch.Installed {
			if got := tagsOf(d.View()); got != tagsWant(true) {
				mis = append(mis, ezMis{step, "prop", fmt.Sprintf("after file change %d the set-typed leaf is %s, defaults<file gives %s", i+1, got, tagsWant(true))})
			}
		}
		if !reflect.DeepEqual(cur, ch.View) && ch.Installed {
			select {
			case <-d.Events():
			default:
			}
		}
		cur = ch.View
	}
	return
}

func ezMain(args []string) {
	if len(args) < 2 {
		fatalf("usage: vh ez <cases.ndjson> <results.ndjson>")
	}
	in, err := os.Open(args[0])
	if err != nil {
		fatalf("%v", err)
	}
	outf, err := os.Create(args[1])
	if err != nil {
		fatalf("%v", err)
	}
	dir, err := os.MkdirTemp(filepath.Dir(args[1]), "ezfiles")
	if err != nil {
		fatalf("%v", err)
	}
	defer os.RemoveAll(dir)
	out := bufio.NewWriter(outf)
	scn := bufio.NewScanner(in)
	scn.Buffer(make([]byte, 1<<20), 1<<24)
	n := 0
	for scn.Scan() {
		line := strings.TrimSpace(scn.Text())
		if line == "" {
			continue
		}
		var c ezCase
		if err := json.Unmarshal([]byte(line), &c); err != nil {
			fatalf("bad case: %v: %s", err, line)
		}
		fmt.Fprintf(out, "{\"begin\":%q}\n", c.ID)
		out.Flush()
		mis := runEzCase(c, dir)
		b, _ := json.Marshal(map[string]any{"id": c.ID, "mismatches": mis})
		out.Write(b)
		out.WriteByte('\n')
		n++
	}
	leaked := waitNoDialsGoroutines(10 * time.Second)
	b, _ := json.Marshal(map[string]any{"final": true, "cases": n, "leaked": len(leaked)})
	out.Write(b)
	out.WriteByte('\n')
	out.Flush()
	outf.Close()
}
