package main

import (
	"fmt"
	"os"
)

func main() {
	if len(os.Args) < 2 {
		fatalf("usage: vh <kernel|...> args")
	}
	switch os.Args[1] {
	case "kernel":
		kernelMain(os.Args[2:])
	case "wrap":
		wrapMain(os.Args[2:])
	case "ez":
		ezMain(os.Args[2:])
	case "fw":
		fwMain(os.Args[2:])
	case "stack":
		stackMain(os.Args[2:])
	case "graph":
		graphMain(os.Args[2:])
	case "caseconv":
		ccMain(os.Args[2:])
	case "parse":
		parseMain(os.Args[2:])
	case "delay":
		delayMain(os.Args[2:])
	case "sources":
		sourcesMain(os.Args[2:])
	default:
		fmt.Fprintln(os.Stderr, "unknown subcommand", os.Args[1])
		os.Exit(2)
	}
}
