package main

// Sources driver (C10-C14, C16): materialises the cases emitted by TLC from
// spec/Sources.tla as real config types and feeds each source the data the case
// describes under the names the model documents (rendered by this file's own
// renderer, not by tagformat/caseconversion): the environment source, both flag
// sources, the four file decoders wrapped the way ez wraps them, and the bare
// transformer chains.  Every mismatch is labelled with the property it breaks.

import (
	"bufio"
	"context"
	"encoding"
	"encoding/json"
	stdflag "flag"
	"fmt"
	"net"
	"os"
	"reflect"
	"sort"
	"strings"
	"time"

	"github.com/vimeo/dials"
	"github.com/vimeo/dials/decoders/cue"
	djson2 "github.com/vimeo/dials/decoders/json"
	"github.com/vimeo/dials/decoders/toml"
	"github.com/vimeo/dials/decoders/yaml"
	"github.com/vimeo/dials/ptrify"
	"github.com/vimeo/dials/sources/env"
	dflag "github.com/vimeo/dials/sources/flag"
	dpflag "github.com/vimeo/dials/sources/pflag"
	"github.com/vimeo/dials/sources/static"
	"github.com/vimeo/dials/sourcewrap"
	"github.com/vimeo/dials/transform"
)

type srcTag struct {
	Style string   `json:"style"`
	Words []string `json:"words"`
}

type srcField struct {
	ID     int        `json:"id"`
	Name   []string   `json:"name"`
	Kind   string     `json:"kind"`
	Tag    srcTag     `json:"tag"`
	SrcTag bool       `json:"srctag"`
	Alias  []string   `json:"alias"`
	Pat    string     `json:"pat"`
	Nest   string     `json:"nest"`
	Sub    []srcField `json:"sub"`
	PAlias bool       `json:"palias"` // struct: its children are supplied under its alias name
}

type srcLeafExp struct {
	ID        int      `json:"id"`
	Kind      string   `json:"kind"`
	Pat       string   `json:"pat"`
	Set       bool     `json:"set"`
	Env       []string `json:"env"`
	EnvAlias  []string `json:"envAlias"`
	Flag      []srcTag `json:"flag"`
	FlagAlias []srcTag `json:"flagAlias"`
}

type srcCase struct {
	ID     string     `json:"id"`
	Fields []srcField `json:"fields"`
	Prefix bool       `json:"prefix"`
	Expect struct {
		Leaves []srcLeafExp `json:"leaves"`
		Error  bool         `json:"error"`
		Over   bool         `json:"over"` // some leaf is supplied with a value outside its type's range
	} `json:"expect"`
	Garbage string `json:"garbage"` // C16: a text that replaces every supplied value
	Seed    int    `json:"seed"`
}

type SLevel uint8

// user-defined named collection / element / key types and user-declared pointers to leaves (C16's universe)
type SStrs []string
type SDict map[string]string
type SCount int
type SName string
type SCplx complex64

// which sources can be given a leaf of this kind at all (the others are still run: they must not panic)
func envSupports(kind string) bool {
	switch kind {
	case "time", "durs", "structs", "pdurs", "ip", "uptr", "nkset", "nkmss", "dkmap", "estructs":
		return false // (uintptr: the text parser has no such kind; the variable is still supplied, it must not panic)
	}
	return true
}

func flagSupports(kind string) bool {
	switch kind {
	case "durs", "structs", "nstrs", "nmap", "lnamed", "mnamed", "knamed", "pdurs", "nkset", "nkmss", "dkmap", "estructs":
		return false // no flag is registered for such a leaf
	}
	return true
}

func docSupports(kind string) bool {
	switch kind {
	case "named", "c64", "knamed", "ncplx", "nkset", "nkmss", "dkmap", "estructs":
		return false // not expressible alike in all four formats
	}
	return true
}

// SItem is the element of the slice-of-struct leaf kind (decoders only)
type SItem struct {
	N int       `dials:"n"`
	u int       // skipped fields are legal inside element structs too (here: after an exported one)
	W time.Time `dials:"w"` // a text-unmarshalable struct held by value inside a slice element (never pointerified)
}

// SEItem / SEmb: element type of the kind "estructs" (slice elements are not pointerified: E stays a plain int)
type SEmb struct {
	E int `dials:"e"`
}
type SEItem struct {
	SEmb
	N int `dials:"n"`
}

// a flag given twice, each occurrence with a part of the value: the parts accumulate
func repeatParts(kind string, id int) (string, string, reflect.Value) {
	switch kind {
	case "strs":
		return fmt.Sprintf(`"a%d"`, id), fmt.Sprintf(`"b,%d","c"`, id), reflect.ValueOf([]string{fmt.Sprintf("a%d", id), fmt.Sprintf("b,%d", id), "c"})
	case "ints":
		return fmt.Sprint(id), fmt.Sprintf("-%d,7", id), reflect.ValueOf([]int{id, -id, 7})
	case "smap":
		return fmt.Sprintf(`"k%d":"v:w"`, id), `"z":"y"`, reflect.ValueOf(map[string]string{fmt.Sprintf("k%d", id): "v:w", "z": "y"})
	case "set":
		return fmt.Sprintf(`"m%d"`, id), `"z"`, reflect.ValueOf(map[string]struct{}{fmt.Sprintf("m%d", id): {}, "z": {}})
	}
	panic("harness: kind " + kind + " is not repeatable")
}

// a literal outside the range of the narrow leaf kinds
func overValue(kind string) (string, interface{}) {
	switch kind {
	case "int8":
		return "200", 200
	case "uint16":
		return "70000", 70000
	case "named":
		return "300", 300
	case "f32":
		return "1e39", 1e39
	case "c64":
		return "(1+4e38i)", nil
	}
	panic("harness: no out-of-range literal for " + kind)
}

var srcInitialisms = map[string]bool{"id": true, "http": true, "json": true, "url": true, "api": true, "ip": true, "uid": true}

func goName(words []string) string {
	var b strings.Builder
	for _, w := range words {
		if srcInitialisms[w] {
			b.WriteString(strings.ToUpper(w))
		} else if w == "ids" || w == "urls" {
			b.WriteString(strings.ToUpper(w[:len(w)-1]) + "s") // a pluralised initialism: IDs, URLs
		} else {
			b.WriteString(strings.ToUpper(w[:1]) + w[1:])
		}
	}
	return b.String()
}

func renderTag(t srcTag) string {
	switch t.Style {
	case "snake":
		return strings.Join(t.Words, "_")
	case "kebab":
		return strings.Join(t.Words, "-")
	case "upper":
		return strings.ToUpper(strings.Join(t.Words, "_"))
	case "camel":
		out := t.Words[0]
		for _, w := range t.Words[1:] {
			out += strings.ToUpper(w[:1]) + w[1:]
		}
		return out
	}
	return ""
}

func kindType(k string) reflect.Type {
	switch k {
	case "int":
		return reflect.TypeOf(int(0))
	case "int8":
		return reflect.TypeOf(int8(0))
	case "uint16":
		return reflect.TypeOf(uint16(0))
	case "str":
		return reflect.TypeOf("")
	case "bool":
		return reflect.TypeOf(false)
	case "f64":
		return reflect.TypeOf(float64(0))
	case "dur":
		return reflect.TypeOf(time.Duration(0))
	case "strs":
		return reflect.TypeOf([]string(nil))
	case "ints":
		return reflect.TypeOf([]int(nil))
	case "smap":
		return reflect.TypeOf(map[string]string(nil))
	case "set":
		return reflect.TypeOf(map[string]struct{}(nil))
	case "time":
		return reflect.TypeOf(time.Time{})
	case "named":
		return reflect.TypeOf(SLevel(0))
	case "durs":
		return reflect.TypeOf([]time.Duration(nil))
	case "structs":
		return reflect.TypeOf([]SItem(nil))
	case "f32":
		return reflect.TypeOf(float32(0))
	case "c64":
		return reflect.TypeOf(complex64(0))
	case "nstrs":
		return reflect.TypeOf(SStrs(nil))
	case "nmap":
		return reflect.TypeOf(SDict(nil))
	case "lnamed":
		return reflect.TypeOf([]SCount(nil))
	case "mnamed":
		return reflect.TypeOf(map[string]SCount(nil))
	case "knamed":
		return reflect.TypeOf(map[SName]string(nil))
	case "estructs": // a slice whose element struct embeds a struct with a plain (never pointerified) field
		return reflect.TypeOf([]SEItem(nil))
	case "dkmap": // a map keyed by a type that decoders substitute (durations), with values that are not substituted
		return reflect.TypeOf(map[time.Duration]string(nil))
	case "nkset":
		return reflect.TypeOf(map[SName]struct{}(nil))
	case "nkmss":
		return reflect.TypeOf(map[SName][]string(nil))
	case "uptr":
		return reflect.TypeOf(uintptr(0))
	case "ncplx":
		return reflect.TypeOf(SCplx(0))
	case "ip":
		return reflect.TypeOf(net.IP(nil))
	case "pdurs":
		return reflect.TypeOf([]*time.Duration(nil))
	case "pint":
		return reflect.TypeOf((*int)(nil))
	case "pstrs":
		return reflect.TypeOf((*[]string)(nil))
	case "pmap":
		return reflect.TypeOf((*map[string]string)(nil))
	}
	panic("harness: unknown kind " + k)
}

func srcStructField(f srcField) reflect.StructField { return srcStructFieldAt(f, false) }

// underAlias: some enclosing struct carries an alias, so this field exists twice in the translated type (a shorthand, which
// cannot be given a second spelling there, would collide with itself)
func srcStructFieldAt(f srcField, underAlias bool) reflect.StructField {
	sf := reflect.StructField{Name: goName(f.Name)}
	var tags []string
	if f.Tag.Style != "none" && f.Tag.Style != "" {
		tags = append(tags, fmt.Sprintf(`dials:"%s"`, renderTag(f.Tag)))
	}
	if f.SrcTag {
		tags = append(tags, fmt.Sprintf(`dialsenv:"ENVX_%d" dialsflag:"flagx-%d" dialspflag:"pflagx-%d"`, f.ID, f.ID, f.ID))
		if f.ID%2 == 1 {
			// a format tag with options but no name: it is present, so the dials tag is not copied over it and the
			// format's own default key applies
			tags = append(tags, `json:",omitempty" yaml:",omitempty" toml:",omitempty"`)
		} else {
			tags = append(tags, fmt.Sprintf(`json:"J%d" yaml:"Y%d" toml:"T%d"`, f.ID, f.ID, f.ID))
		}
	}
	if len(f.Alias) > 0 {
		tags = append(tags, fmt.Sprintf(`dialsalias:"%s"`, strings.Join(f.Alias, "_")))
		if f.Nest == "" && f.ID%2 == 0 && !underAlias {
			// an aliased leaf that also has a pflag shorthand (and, as required then, a shorthand for the alias)
			tags = append(tags, fmt.Sprintf(`dialspflagshort:"%c" dialspflagshortalias:"%c"`, 'a'+rune(f.ID%26), 'A'+rune(f.ID%26)))
		}
	}
	sf.Tag = reflect.StructTag(strings.Join(tags, " "))
	switch f.Nest {
	case "":
		sf.Type = kindType(f.Kind)
	default:
		var subs []reflect.StructField
		for _, s := range f.Sub {
			subs = append(subs, srcStructFieldAt(s, underAlias || len(f.Alias) > 0))
		}
		st := reflect.StructOf(subs)
		switch f.Nest {
		case "struct":
			sf.Type = st
		case "pstruct":
			sf.Type = reflect.PtrTo(st)
		case "emb":
			sf.Type = st
			sf.Anonymous = true
		}
	}
	return sf
}

// leaf values: Go value, text form for env / flags, and document value (JSON-able)
func leafValue(kind string, id int) (reflect.Value, string, interface{}) {
	switch kind {
	case "int":
		return reflect.ValueOf(1000 + id), fmt.Sprint(1000 + id), 1000 + id
	case "int8":
		return reflect.ValueOf(int8(id + 1)), fmt.Sprint(id + 1), id + 1
	case "uint16":
		return reflect.ValueOf(uint16(60000 + id)), fmt.Sprint(60000 + id), 60000 + id
	case "str":
		s := fmt.Sprintf("v%d, \"q\":x", id)
		return reflect.ValueOf(s), s, s
	case "bool":
		return reflect.ValueOf(true), "true", true
	case "f64":
		return reflect.ValueOf(float64(id) + 0.5), fmt.Sprintf("%d.5", id), float64(id) + 0.5
	case "dur":
		// odd ids: a duration whose nanosecond count (2^53 + id, odd) is not exactly representable as a float64
		d := time.Duration(id) * time.Second
		if id%2 == 1 {
			d = time.Duration(1<<53 + int64(id))
		}
		return reflect.ValueOf(d), d.String(), d.String()
	case "strs":
		v := []string{fmt.Sprintf("a%d", id), fmt.Sprintf("b,%d", id)}
		return reflect.ValueOf(v), fmt.Sprintf(`"a%d","b,%d"`, id, id), []interface{}{v[0], v[1]}
	case "ints":
		return reflect.ValueOf([]int{id, -id}), fmt.Sprintf("%d,-%d", id, id), []interface{}{id, -id}
	case "smap":
		return reflect.ValueOf(map[string]string{fmt.Sprintf("k%d", id): "v:w"}), fmt.Sprintf(`"k%d":"v:w"`, id), map[string]interface{}{fmt.Sprintf("k%d", id): "v:w"}
	case "set":
		return reflect.ValueOf(map[string]struct{}{fmt.Sprintf("m%d", id): {}}), fmt.Sprintf(`"m%d"`, id), []interface{}{fmt.Sprintf("m%d", id)}
	case "time":
		t := time.Date(2020, 1, 2, 3, 4, id%60, 0, time.UTC)
		return reflect.ValueOf(t), t.Format(time.RFC3339), t.Format(time.RFC3339)
	case "named":
		return reflect.ValueOf(SLevel(id%200 + 1)), fmt.Sprint(id%200 + 1), id%200 + 1
	case "durs":
		return reflect.ValueOf([]time.Duration{time.Duration(id) * time.Second, time.Minute}), "", []interface{}{fmt.Sprintf("%ds", id), "1m0s"}
	case "structs":
		w := time.Date(2021, 3, 4, 5, 6, id%60, 0, time.UTC)
		ws := w.Format(time.RFC3339)
		// (three elements: a format library that grows its slices append-style leaves spare capacity behind them)
		return reflect.ValueOf([]SItem{{N: id, W: w}, {N: id + 1, W: w}, {N: id + 2, W: w}}), "",
			[]interface{}{map[string]interface{}{"n": id, "w": ws}, map[string]interface{}{"n": id + 1, "w": ws}, map[string]interface{}{"n": id + 2, "w": ws}}
	case "f32":
		return reflect.ValueOf(float32(id) + 0.25), fmt.Sprintf("%d.25", id), float64(id) + 0.25
	case "c64":
		return reflect.ValueOf(complex(float32(id), float32(2))), fmt.Sprintf("(%d+2i)", id), nil
	case "nstrs":
		v := SStrs{fmt.Sprintf("a%d", id), fmt.Sprintf("b,%d", id)}
		return reflect.ValueOf(v), fmt.Sprintf(`"a%d","b,%d"`, id, id), []interface{}{v[0], v[1]}
	case "nmap":
		return reflect.ValueOf(SDict{fmt.Sprintf("k%d", id): "v:w"}), fmt.Sprintf(`"k%d":"v:w"`, id), map[string]interface{}{fmt.Sprintf("k%d", id): "v:w"}
	case "lnamed":
		return reflect.ValueOf([]SCount{SCount(id), SCount(-id)}), fmt.Sprintf("%d,-%d", id, id), []interface{}{id, -id}
	case "mnamed":
		return reflect.ValueOf(map[string]SCount{fmt.Sprintf("k%d", id): SCount(id)}), fmt.Sprintf(`"k%d":%d`, id, id), map[string]interface{}{fmt.Sprintf("k%d", id): id}
	case "knamed":
		return reflect.ValueOf(map[SName]string{SName(fmt.Sprintf("k%d", id)): "v"}), fmt.Sprintf(`"k%d":"v"`, id), map[string]interface{}{fmt.Sprintf("k%d", id): "v"}
	case "estructs":
		return reflect.ValueOf([]SEItem{{SEmb: SEmb{E: id}, N: id + 1}}), "", []interface{}{map[string]interface{}{"e": id, "n": id + 1}}
	case "dkmap":
		return reflect.ValueOf(map[time.Duration]string{time.Duration(id) * time.Second: "v"}), "", map[string]interface{}{fmt.Sprintf("%ds", id): "v"}
	case "nkset": // sets / string-slice maps keyed by a user-defined string type
		return reflect.ValueOf(map[SName]struct{}{SName(fmt.Sprintf("m%d", id)): {}}), fmt.Sprintf(`"m%d"`, id), []interface{}{fmt.Sprintf("m%d", id)}
	case "nkmss":
		return reflect.ValueOf(map[SName][]string{SName(fmt.Sprintf("k%d", id)): {"v"}}), fmt.Sprintf(`"k%d":"v"`, id), map[string]interface{}{fmt.Sprintf("k%d", id): []interface{}{"v"}}
	case "uptr":
		return reflect.ValueOf(uintptr(4000 + id)), fmt.Sprint(4000 + id), 4000 + id
	case "ncplx":
		return reflect.ValueOf(SCplx(complex(float32(id), float32(2)))), fmt.Sprintf("(%d+2i)", id), nil
	case "ip": // a text-unmarshalable value of slice kind
		ip := net.IPv4(10, 0, byte(id/250), byte(id%250+1))
		return reflect.ValueOf(ip), ip.String(), ip.String()
	case "pdurs": // a collection of pointers with a hole in it
		d := time.Duration(id) * time.Second
		return reflect.ValueOf([]*time.Duration{nil, &d}), "", []interface{}{nil, d.String()}
	case "pint": // pointer kinds: the pointee (results are compared after dereferencing)
		return reflect.ValueOf(2000 + id), fmt.Sprint(2000 + id), 2000 + id
	case "pstrs":
		v := []string{fmt.Sprintf("p%d", id), "q"}
		return reflect.ValueOf(v), fmt.Sprintf(`"p%d","q"`, id), []interface{}{v[0], v[1]}
	case "pmap":
		return reflect.ValueOf(map[string]string{fmt.Sprintf("pk%d", id): "v"}), fmt.Sprintf(`"pk%d":"v"`, id), map[string]interface{}{fmt.Sprintf("pk%d", id): "v"}
	}
	panic("harness: no value for " + kind)
}

type sMisS struct {
	Prop   string `json:"prop"`
	Src    string `json:"src"`
	Detail string `json:"detail"`
}

type srcRun struct {
	c    srcCase
	typ  reflect.Type
	ptyp reflect.Type
	mis  []sMisS
	leaf map[int]srcLeafExp
}

func (r *srcRun) add(prop, src, format string, a ...any) {
	r.mis = append(r.mis, sMisS{prop, src, fmt.Sprintf(format, a...)})
}

// locate returns the field of a result value (pointerified or original type) that holds leaf id, and whether it is set
func (r *srcRun) locate(root reflect.Value, id int) (reflect.Value, bool) {
	var walk func(fs []srcField, v reflect.Value) (reflect.Value, bool, bool)
	walk = func(fs []srcField, v reflect.Value) (reflect.Value, bool, bool) {
		for v.Kind() == reflect.Ptr {
			if v.IsNil() {
				return reflect.Value{}, false, false
			}
			v = v.Elem()
		}
		for i, f := range fs {
			fv := v.Field(i)
			if f.Nest == "" {
				if f.ID == id {
					return fv, true, true
				}
				continue
			}
			if out, found, reach := walk(f.Sub, fv); found || !reach && containsID(f.Sub, id) {
				return out, found, reach
			}
		}
		return reflect.Value{}, false, true
	}
	out, found, _ := walk(r.c.Fields, root)
	if !found {
		return reflect.Value{}, false
	}
	switch out.Kind() {
	case reflect.Ptr, reflect.Map, reflect.Slice:
		return out, !out.IsNil()
	}
	return out, !out.IsZero()
}

func containsID(fs []srcField, id int) bool {
	for _, f := range fs {
		if f.ID == id || containsID(f.Sub, id) {
			return true
		}
	}
	return false
}

// how a leaf with pattern "empty" is treated by a source: decoders are given an explicitly empty collection, the flag
// sources an empty argument for a set; everything else is not given the leaf at all
func emptyApplies(src, kind string) bool {
	switch src {
	case "json", "yaml", "toml", "cue":
		return true
	case "flag", "pflag":
		// a flag that appears with the empty value sets its leaf (to the empty collection), it is not "not given"
		return kind == "set" || kind == "strs"
	case "env":
		// a variable that is present with the empty value sets a collection leaf to the empty collection
		switch kind {
		case "strs", "ints", "nstrs", "lnamed", "smap", "nmap", "mnamed", "knamed", "set":
			return true
		}
	}
	return false
}

// judge compares a source's result (of the pointerified type) with the case
func (r *srcRun) judge(src, prop string, res reflect.Value, err error, garbage bool) {
	if garbage {
		return // only totality is demanded of garbage input
	}
	if r.c.Expect.Over {
		if err == nil {
			for _, l := range r.c.Expect.Leaves {
				if l.Pat == "over" {
					txt, _ := overValue(l.Kind)
					fv, set := r.locate(res, l.ID)
					got := "unset"
					if set {
						for fv.Kind() == reflect.Ptr {
							fv = fv.Elem()
						}
						got = fmt.Sprint(fv.Interface())
					}
					r.add(prop, src, "leaf %d (%s) was given %s, which is outside its type's range, but the source reported no error (leaf: %s)", l.ID, l.Kind, txt, got)
				}
			}
		}
		return
	}
	anyAliasBoth := r.c.Expect.Error
	if anyAliasBoth {
		if err == nil {
			r.add("C14", src, "both the primary and the alias name were supplied for a field, but the source reported no error")
		} else {
			// the error must name the field
			named := false
			for _, l := range r.c.Expect.Leaves {
				if l.Pat == "both" || l.Pat == "bothempty" {
					// the field itself or, for a nested one, a struct on its path
					for _, f := range pathTo(r.c.Fields, l.ID) {
						if strings.Contains(err.Error(), goName(f.Name)) {
							named = true
						}
					}
				}
			}
			if !named {
				r.add("C14", src, "error for a field supplied under both names does not name the field: %v", err)
			}
		}
		return
	}
	if err != nil {
		r.add(prop, src, "unexpected error: %v", err)
		return
	}
	for _, l := range r.c.Expect.Leaves {
		fv, set := r.locate(res, l.ID)
		p := prop
		if l.Pat == "alias" {
			p = "C14"
		}
		if l.Pat == "empty" {
			if !emptyApplies(src, l.Kind) {
				if set {
					r.add(p, src, "leaf %d (%s) was not supplied but is set to %v", l.ID, l.Kind, fv.Interface())
				}
				continue
			}
			if !set {
				r.add(p, src, "leaf %d (%s) was supplied as an explicitly empty collection but was left unset", l.ID, l.Kind)
				r.add("C10", src, "leaf %d (%s): an empty collection written to the translated field reverses to unset", l.ID, l.Kind)
			} else if fv.Len() != 0 {
				r.add(p, src, "leaf %d (%s) was supplied empty but holds %v", l.ID, l.Kind, fv.Interface())
			}
			continue
		}
		if l.Pat == "repeat" && src != "flag" && src != "pflag" {
			if set {
				r.add(p, src, "leaf %d (%s) was not supplied but is set to %v", l.ID, l.Kind, fv.Interface())
			}
			continue
		}
		if l.Set && !set {
			r.add(p, src, "leaf %d (%s, supplied as %s) was left unset", l.ID, l.Kind, l.Pat)
			r.add("C10", src, "leaf %d (%s) was supplied but is unset after reverse translation", l.ID, l.Kind)
			continue
		}
		if !l.Set && set {
			r.add(p, src, "leaf %d (%s) was not supplied but is set to %v", l.ID, l.Kind, fv.Interface())
			r.add("C10", src, "leaf %d (%s) was not supplied but is set after reverse translation", l.ID, l.Kind)
			continue
		}
		if l.Set {
			want, _, _ := leafValue(l.Kind, l.ID)
			if l.Pat == "repeat" {
				_, _, want = repeatParts(l.Kind, l.ID)
			}
			got := fv
			for got.Kind() == reflect.Ptr {
				got = got.Elem()
			}
			if !reflect.DeepEqual(got.Interface(), want.Interface()) {
				if src == "cue" && l.Kind == "uptr" {
					// finding D24 (the Cue library has no case for uintptr): a disagreement between decoders, not a mangler or alias matter
					r.add("C13", src, "leaf %d (%s): got %v, supplied %v", l.ID, l.Kind, got.Interface(), want.Interface())
					continue
				}
				r.add(p, src, "leaf %d (%s): got %v, supplied %v", l.ID, l.Kind, got.Interface(), want.Interface())
				r.add("C10", src, "leaf %d (%s): value changed by the round trip: %v vs %v", l.ID, l.Kind, got.Interface(), want.Interface())
			}
		}
	}
}

func pathTo(fs []srcField, id int) []srcField {
	for _, f := range fs {
		if f.ID == id {
			return []srcField{f}
		}
		if f.Nest != "" {
			if p := pathTo(f.Sub, id); p != nil {
				return append([]srcField{f}, p...)
			}
		}
	}
	return nil
}

func findField(fs []srcField, id int) srcField {
	for _, f := range fs {
		if f.ID == id {
			return f
		}
		if f.Nest != "" {
			if g := findField(f.Sub, id); g.ID == id {
				return g
			}
		}
	}
	return srcField{}
}

func envName(words []string, prefix bool) string {
	n := strings.ToUpper(strings.Join(words, "_"))
	if prefix {
		n = "PFX_" + n
	}
	return n
}

func flagName(parts []srcTag) string {
	var ps []string
	for _, p := range parts {
		ps = append(ps, renderTag(p))
	}
	return strings.Join(ps, "-")
}

func (r *srcRun) guard(src string, f func()) {
	defer func() {
		if rec := recover(); rec != nil {
			r.add("C16", src, "panic: %v", rec)
			if src == "flag" || src == "pflag" {
				for _, l := range r.c.Expect.Leaves {
					if len(l.FlagAlias) > 0 {
						// the flag source of a type with aliased fields cannot even be built / asked for its value
						r.add("C14", src, "panic: %v", rec)
						break
					}
				}
			}
			if strings.HasPrefix(src, "transformer:") {
				// a bare mangler chain that cannot translate / reverse-translate a supported type is also not lossless
				r.add("C10", src, "panic: %v", rec)
			}
		}
	}()
	f()
}

func (r *srcRun) runEnv() {
	judged := true
	for _, l := range r.c.Expect.Leaves {
		if !envSupports(l.Kind) {
			judged = false // not a string-castable leaf: outside the environment source's domain; it still must not panic
		}
	}
	names := map[string]bool{}
	set := func(n, v string) { os.Setenv(n, v); names[n] = true }
	pfx := ""
	if r.c.Prefix {
		pfx = "PFX"
	}
	for _, l := range r.c.Expect.Leaves {
		f := findField(r.c.Fields, l.ID)
		_, text, _ := leafValue(l.Kind, l.ID)
		if r.c.Garbage != "" {
			text = r.c.Garbage
		}
		if !envSupports(l.Kind) && text == "" {
			text = "x" // (a kind without a text form; the others get their well-formed text although the source cannot take it)
		}
		prim := envName(l.Env, r.c.Prefix)
		if f.SrcTag {
			prim = fmt.Sprintf("ENVX_%d", l.ID)
			if r.c.Prefix {
				prim = "PFX_" + prim
			}
		}
		if l.Pat == "over" && r.c.Garbage == "" {
			text, _ = overValue(l.Kind)
		}
		if l.Pat == "primary" || l.Pat == "both" || l.Pat == "bothempty" || l.Pat == "over" {
			set(prim, text)
		}
		if l.Pat == "empty" && emptyApplies("env", l.Kind) && r.c.Garbage == "" {
			set(prim, "")
		}
		if l.Pat == "alias" || l.Pat == "both" || l.Pat == "bothempty" {
			set(envName(l.EnvAlias, r.c.Prefix), text)
		}
		// noise that must be ignored: the name without the prefix / with another separator / a sibling-like name
		if l.Pat == "neither" {
			if r.c.Prefix {
				set(envName(l.Env, false), text)
			}
			set(strings.ReplaceAll(prim, "_", "")+"X", text)
			set(prim+"_EXTRA", text)
		}
	}
	defer func() {
		for n := range names {
			os.Unsetenv(n)
		}
	}()
	r.guard("env", func() {
		src := &env.Source{Prefix: pfx}
		res, err := src.Value(context.Background(), dials.NewType(r.ptyp))
		r.judge("env", "C11", res, err, r.c.Garbage != "" || !judged)
		if r.c.Garbage != "" || !judged || err != nil {
			return
		}
		// the same source asked again after its variables were removed (a reload): no leaf may be set any more
		for n := range names {
			os.Unsetenv(n)
		}
		res2, err2 := src.Value(context.Background(), dials.NewType(r.ptyp))
		if err2 != nil {
			r.add("C11", "env", "second call on the same source, with every variable removed, failed: %v", err2)
			return
		}
		for _, l := range r.c.Expect.Leaves {
			if fv, set := r.locate(res2, l.ID); set {
				r.add("C11", "env", "second call on the same source after its variable was removed: leaf %d (%s) is still set to %v", l.ID, l.Kind, fv.Interface())
				break
			}
		}
	})
}

type flagger interface {
	Value(context.Context, *dials.Type) (reflect.Value, error)
}

func (r *srcRun) runFlags(which string) {
	var args []string
	judged := true
	for _, l := range r.c.Expect.Leaves {
		if !flagSupports(l.Kind) {
			judged = false // no flag is registered for this kind; constructing the set and asking for its value must still work
		}
	}
	for _, l := range r.c.Expect.Leaves {
		if !flagSupports(l.Kind) {
			continue
		}
		f := findField(r.c.Fields, l.ID)
		_, text, _ := leafValue(l.Kind, l.ID)
		if r.c.Garbage != "" {
			text = r.c.Garbage
		}
		prim := flagName(l.Flag)
		if f.SrcTag {
			prim = fmt.Sprintf("flagx-%d", l.ID)
			if which == "pflag" {
				prim = fmt.Sprintf("pflagx-%d", l.ID)
			}
		}
		if l.Pat == "over" && r.c.Garbage == "" {
			text, _ = overValue(l.Kind)
		}
		if l.Pat == "primary" || l.Pat == "both" || l.Pat == "bothempty" || l.Pat == "over" {
			args = append(args, "--"+prim+"="+text)
		}
		if l.Pat == "alias" || l.Pat == "both" || l.Pat == "bothempty" {
			args = append(args, "--"+flagName(l.FlagAlias)+"="+text)
		}
		if l.Pat == "empty" && emptyApplies(which, l.Kind) && r.c.Garbage == "" {
			args = append(args, "--"+prim+"=")
		}
		if l.Pat == "repeat" {
			t1, t2, _ := repeatParts(l.Kind, l.ID)
			if r.c.Garbage != "" {
				t1, t2 = r.c.Garbage, r.c.Garbage
			}
			args = append(args, "--"+prim+"="+t1, "--"+prim+"="+t2)
		}
	}
	// any order
	hasRepeat := false
	for _, l := range r.c.Expect.Leaves {
		hasRepeat = hasRepeat || l.Pat == "repeat"
	}
	if r.c.Seed%2 == 1 && !hasRepeat { // (the order of two occurrences of one flag is the order of their parts)
		sort.Sort(sort.Reverse(sort.StringSlice(args)))
	}
	tmplV := reflect.New(r.typ)
	r.fillDefaults(r.c.Fields, tmplV.Elem())
	tmpl := tmplV.Interface()
	r.guard(which, func() {
		var src flagger
		var err error
		if which == "flag" {
			src, err = dflag.NewSetWithArgs(dflag.DefaultFlagNameConfig(), tmpl, args)
		} else {
			src, err = dpflag.NewSetWithArgs(dpflag.DefaultFlagNameConfig(), tmpl, args)
		}
		if err != nil {
			if r.c.Garbage == "" && judged {
				r.add("C12", which, "constructing the flag set failed: %v", err)
			}
			return
		}
		if r.c.Garbage == "" {
			r.checkAdvertised(which, src)
		}
		if r.c.Garbage == "" && r.c.Seed%5 == 2 && !r.c.Expect.Over && !r.c.Expect.Error {
			// the application parses the flag set itself before dials asks for the value (as a main() using the process's flag
			// set does): nothing may be applied twice
			switch fs := src.(type) {
			case *dflag.Set:
				fs.Flags.Parse(args)
			case *dpflag.Set:
				fs.Flags.Parse(args)
			}
		}
		res, verr := src.Value(context.Background(), dials.NewType(r.ptyp))
		before := len(r.mis)
		r.judge(which, "C12", res, verr, r.c.Garbage != "" || !judged)
		if r.c.Garbage == "" && verr == nil {
			// C02 when the template is also what the caller passes to Config as defaults (what ez does): Config calls
			// Value, and nothing may be written into the caller's struct
			snap := reflect.New(r.typ)
			r.fillDefaults(r.c.Fields, snap.Elem())
			if !reflect.DeepEqual(tmpl, snap.Interface()) {
				what := ""
				for _, l := range r.c.Expect.Leaves {
					a, _ := r.locate(tmplV, l.ID)
					b, _ := r.locate(snap, l.ID)
					if a.IsValid() && b.IsValid() && !reflect.DeepEqual(a.Interface(), b.Interface()) {
						what += fmt.Sprintf(" leaf %d (%s): %v -> %v;", l.ID, l.Kind, b.Interface(), a.Interface())
					}
				}
				r.add("C02", which, "parsing the flags wrote into the caller's template (the defaults, when the same struct is passed to Config):%s", what)
			}
		}
		if len(r.mis) > before && r.c.Garbage == "" {
			var names []string
			if fs, ok := src.(*dflag.Set); ok {
				fs.Flags.VisitAll(func(f *stdflag.Flag) { names = append(names, f.Name) })
			}
			r.mis[before].Detail += fmt.Sprintf(" | args %v | registered %v", args, names)
		}
	})
}

// checkAdvertised: each leaf's flag advertises the template's value for that leaf as its default
func (r *srcRun) checkAdvertised(which string, src flagger) {
	lookup := func(name string) (string, bool) {
		switch s := src.(type) {
		case *dflag.Set:
			if f := s.Flags.Lookup(name); f != nil {
				return f.DefValue, true
			}
		case *dpflag.Set:
			if f := s.Flags.Lookup(name); f != nil {
				return f.DefValue, true
			}
		}
		return "", false
	}
	for _, l := range r.c.Expect.Leaves {
		if !flagSupports(l.Kind) {
			continue
		}
		f := findField(r.c.Fields, l.ID)
		viaStructAlias := false
		for _, pf := range pathTo(r.c.Fields, l.ID) {
			viaStructAlias = viaStructAlias || pf.PAlias
		}
		if viaStructAlias {
			continue // the model names this leaf by its struct's alias; the statement is about the flag under the primary name
		}
		name := flagName(l.Flag)
		if f.SrcTag {
			name = fmt.Sprintf("flagx-%d", l.ID)
			if which == "pflag" {
				name = fmt.Sprintf("pflagx-%d", l.ID)
			}
		}
		def, ok := lookup(name)
		if !ok {
			r.add("C12", which, "no flag --%s is registered for leaf %d (%s)", name, l.ID, l.Kind)
			continue
		}
		dv, _, _ := leafValue(l.Kind, l.ID+r.defaultOffset()) // what fillDefaults put into the template
		var elems []string
		switch l.Kind {
		case "time":
			elems = []string{dv.Interface().(time.Time).Format(time.RFC3339)}
		case "strs", "nstrs", "pstrs":
			for i := 0; i < dv.Len(); i++ {
				elems = append(elems, dv.Index(i).String())
			}
		case "ints":
			for i := 0; i < dv.Len(); i++ {
				elems = append(elems, fmt.Sprint(dv.Index(i).Interface()))
			}
		case "smap", "pmap", "set":
			for _, k := range dv.MapKeys() {
				elems = append(elems, k.String())
				if dv.Type().Elem().Kind() == reflect.String {
					elems = append(elems, dv.MapIndex(k).String())
				}
			}
		default:
			if want := fmt.Sprint(dv.Interface()); def != want {
				r.add("C12", which, "flag --%s advertises the default %q, the template's value for leaf %d (%s) is %q", name, def, l.ID, l.Kind, want)
			}
			continue
		}
		for _, e := range elems {
			if !strings.Contains(def, e) {
				r.add("C12", which, "flag --%s advertises the default %q, which does not show %q of the template's value for leaf %d (%s)", name, def, e, l.ID, l.Kind)
				break
			}
		}
	}
}

// defaultOffset: the template's defaults differ from every supplied value, except in one case out of three, where a flag is
// given explicitly with the very value the template holds (it must still count as given)
func (r *srcRun) defaultOffset() int {
	if r.c.Seed%3 == 0 {
		return 0
	}
	return 500
}

// fillDefaults gives every leaf of the flag template a non-zero default that differs from any supplied value
func (r *srcRun) fillDefaults(fs []srcField, v reflect.Value) {
	for i, f := range fs {
		fv := v.Field(i)
		if f.Nest != "" {
			if fv.Kind() == reflect.Ptr {
				fv.Set(reflect.New(fv.Type().Elem()))
				fv = fv.Elem()
			}
			r.fillDefaults(f.Sub, fv)
			continue
		}
		dv, _, _ := leafValue(f.Kind, f.ID+r.defaultOffset())
		if fv.Kind() == reflect.Ptr && dv.Kind() != reflect.Ptr {
			p := reflect.New(dv.Type())
			p.Elem().Set(dv)
			dv = p
		}
		fv.Set(dv)
	}
}

// documents
// docTree renders the supplied leaves as a document tree for one format (a format-specific tag takes precedence over the
// dials tag; Cue reads json tags; durations may be integer nanoseconds in JSON and Cue)
func (r *srcRun) docTree(format string) (map[string]interface{}, bool) {
	ok := true
	var build func(fs []srcField) map[string]interface{}
	build = func(fs []srcField) map[string]interface{} {
		m := map[string]interface{}{}
		for _, f := range fs {
			if f.Nest == "emb" || f.Tag.Style == "none" || f.Tag.Style == "" || (f.Nest == "" && !docSupports(f.Kind)) {
				ok = false // outside "types whose fields carry dials tags" / not expressible alike in all four formats
				continue
			}
			key := renderTag(f.Tag)
			if f.SrcTag && f.Nest == "" {
				key = fmt.Sprintf("%s%d", map[string]string{"json": "J", "cue": "J", "yaml": "Y", "toml": "T"}[format], f.ID)
				if f.ID%2 == 1 {
					key = goName(f.Name) // the format's default key for the field
					if format == "yaml" {
						key = strings.ToLower(key)
					}
				}
			}
			if f.Nest != "" {
				if f.PAlias {
					key = strings.Join(f.Alias, "_")
				}
				if sub := build(f.Sub); len(sub) > 0 {
					m[key] = sub
				}
				continue
			}
			_, _, doc := leafValue(f.Kind, f.ID)
			if f.Kind == "dur" && (format == "json" || format == "cue") && (r.c.Seed+f.ID)%2 == 1 {
				dv, _, _ := leafValue("dur", f.ID)
				doc = int64(dv.Interface().(time.Duration)) // integer nanoseconds
			}
			var empty interface{} = []interface{}{}
			if f.Kind == "smap" || f.Kind == "nmap" || f.Kind == "mnamed" || f.Kind == "knamed" {
				empty = map[string]interface{}{}
			}
			if f.Pat == "primary" || f.Pat == "both" {
				m[key] = doc
			}
			if f.Pat == "over" {
				_, m[key] = overValue(f.Kind)
			}
			if f.Pat == "alias" || f.Pat == "both" || f.Pat == "bothempty" {
				m[strings.Join(f.Alias, "_")] = doc
			}
			if f.Pat == "empty" || f.Pat == "bothempty" {
				m[key] = empty
			}
		}
		return m
	}
	return build(r.c.Fields), ok
}

func tomlText(m map[string]interface{}, path string, b *strings.Builder) {
	keys := make([]string, 0, len(m))
	for k := range m {
		keys = append(keys, k)
	}
	sort.Strings(keys)
	var enc func(v interface{}) string
	enc = func(v interface{}) string {
		if s, ok := v.(string); ok && len(s) == 20 && s[4] == '-' && s[10] == 'T' && s[19] == 'Z' {
			return s // a TOML datetime is written bare
		}
		if l, ok := v.([]interface{}); ok && len(l) > 0 {
			if _, isMap := l[0].(map[string]interface{}); isMap {
				var items []string
				for _, e := range l {
					var kvs []string
					for k, x := range e.(map[string]interface{}) {
						kvs = append(kvs, fmt.Sprintf("%s = %s", tomlKey(k), enc(x)))
					}
					sort.Strings(kvs)
					items = append(items, "{"+strings.Join(kvs, ", ")+"}")
				}
				return "[" + strings.Join(items, ", ") + "]"
			}
		}
		j, _ := json.Marshal(v)
		return string(j)
	}
	var tables []string
	for _, k := range keys {
		switch v := m[k].(type) {
		case map[string]interface{}:
			tables = append(tables, k)
			_ = v
		default:
			fmt.Fprintf(b, "%s = %s\n", tomlKey(k), enc(v))
		}
	}
	for _, k := range tables {
		v := m[k].(map[string]interface{})
		// string maps are inline tables' worth of scalars: emit as a table either way
		full := tomlKey(k)
		if path != "" {
			full = path + "." + full
		}
		fmt.Fprintf(b, "[%s]\n", full)
		tomlText(v, full, b)
	}
}

func tomlKey(k string) string {
	for _, ch := range k {
		if !(ch == '_' || ch == '-' || ch >= '0' && ch <= '9' || ch >= 'a' && ch <= 'z' || ch >= 'A' && ch <= 'Z') {
			return fmt.Sprintf("%q", k)
		}
	}
	return k
}

func yamlText(v interface{}, indent string, b *strings.Builder) {
	switch x := v.(type) {
	case map[string]interface{}:
		keys := make([]string, 0, len(x))
		for k := range x {
			keys = append(keys, k)
		}
		sort.Strings(keys)
		for _, k := range keys {
			j, _ := json.Marshal(k)
			switch c := x[k].(type) {
			case map[string]interface{}:
				if len(c) == 0 {
					fmt.Fprintf(b, "%s%s: {}\n", indent, j)
				} else {
					fmt.Fprintf(b, "%s%s:\n", indent, j)
					yamlText(c, indent+"  ", b)
				}
			default:
				jj, _ := json.Marshal(c) // JSON scalars and flow sequences are valid YAML
				fmt.Fprintf(b, "%s%s: %s\n", indent, j, jj)
			}
		}
	}
}

var sharedDecs = map[string]dials.Decoder{}

// hasAliasOrSet: the case uses something only the wrappers understand (alias spellings, sets written as lists)
func (r *srcRun) hasAliasOrSet() bool {
	for _, l := range r.c.Expect.Leaves {
		if l.Kind == "set" || l.Pat == "alias" || l.Pat == "both" || l.Pat == "bothempty" {
			return true
		}
		for _, pf := range pathTo(r.c.Fields, l.ID) {
			if pf.PAlias {
				return true
			}
		}
	}
	return false
}

func (r *srcRun) runDecoders() {
	tree, ok := r.docTree("json")
	// outside the property's scope (untagged fields, kinds without a common spelling) the decoders are still run on what
	// can be written down: they must not panic
	judged := ok
	jb, _ := json.Marshal(tree)
	docs := map[string]string{"json": string(jb), "cue": string(jb)}
	var tb, yb strings.Builder
	ttree, _ := r.docTree("toml")
	ytree, _ := r.docTree("yaml")
	tomlText(ttree, "", &tb)
	yamlText(ytree, "", &yb)
	docs["toml"] = tb.String()
	docs["yaml"] = yb.String()
	if len(tree) == 0 {
		docs["yaml"] = "{}\n"
	}
	if r.c.Garbage != "" {
		for k := range docs {
			docs[k] = r.c.Garbage
		}
	}
	decs := map[string]dials.Decoder{"json": &djson2.Decoder{}, "yaml": &yaml.Decoder{}, "toml": &toml.Decoder{}, "cue": &cue.Decoder{}}
	results := map[string]reflect.Value{}
	// go-toml v1 has no accepted spelling for an explicitly empty list of tables ("key = []" is rejected for a slice of
	// structs before dials sees anything): such a case is not expressible in all four formats
	tomlOut := false
	for _, l := range r.c.Expect.Leaves {
		if l.Kind == "structs" && (l.Pat == "empty" || l.Pat == "bothempty") {
			tomlOut = true
		}
		if l.Kind == "pdurs" && l.Pat != "neither" && l.Pat != "empty" {
			tomlOut = true // TOML has no null
		}
	}
	for _, name := range []string{"json", "yaml", "toml", "cue"} {
		name := name
		if name == "toml" && tomlOut && r.c.Garbage == "" {
			continue
		}
		r.guard(name, func() {
			dec := sourcewrap.NewTransformingDecoder(decs[name], transform.NewAliasMangler("dials"), &transform.SetSliceMangler{})
			src := &static.StringSource{Data: docs[name], Decoder: dec}
			res, err := src.Value(context.Background(), dials.NewType(r.ptyp))
			before := len(r.mis)
			r.judge(name, "C13", res, err, r.c.Garbage != "" || !judged)
			if err == nil && len(r.mis) == before && judged {
				results[name] = res
			}
			// the bare decoder (no alias / set-to-slice wrapper in front of it) must cope with the same type and document
			r.guard(name+" (unwrapped)", func() {
				res0, err0 := (&static.StringSource{Data: docs[name], Decoder: decs[name]}).Value(context.Background(), dials.NewType(r.ptyp))
				if err0 == nil && err == nil && judged && r.c.Garbage == "" && !r.hasAliasOrSet() && !reflect.DeepEqual(res0.Interface(), res.Interface()) {
					r.add("C20", name, "the decoder behind an alias / set-to-slice wrapper decodes %q differently from the bare decoder", docs[name])
				}
			})
			// C20 (wrapping a decoder does not change what reaches the config): one wrapped decoder instance serves every
			// config type of this process, as a package-level decoder would; it must behave like the fresh one
			func() {
				defer func() {
					if rec := recover(); rec != nil {
						r.add("C20", name, "a transforming decoder instance used for other config types before: panic: %v", rec)
						if judged && r.c.Garbage == "" {
							r.add("C13", name, "a transforming decoder instance used for other config types before: panic: %v", rec)
						}
					}
				}()
				sh, ok := sharedDecs[name]
				if !ok {
					sh = sourcewrap.NewTransformingDecoder(decs[name], transform.NewAliasMangler("dials"), &transform.SetSliceMangler{})
					sharedDecs[name] = sh
				}
				res2, err2 := (&static.StringSource{Data: docs[name], Decoder: sh}).Value(context.Background(), dials.NewType(r.ptyp))
				both := func(format string, a ...any) {
					r.add("C20", name, format, a...)
					if judged && r.c.Garbage == "" {
						r.add("C13", name, format, a...) // same data, same config - also when the wrapper has a history
					}
				}
				switch {
				case (err == nil) != (err2 == nil):
					both("a transforming decoder instance used for other config types before: error %v, a fresh instance: %v", err2, err)
				case err == nil && res2.Type() != res.Type():
					both("a transforming decoder instance used for other config types before returns a %s, asked for %s", res2.Type(), res.Type())
				case err == nil && !reflect.DeepEqual(res.Interface(), res2.Interface()):
					both("a transforming decoder instance used for other config types before decodes %q differently from a fresh one", docs[name])
				}
			}()
			if len(r.mis) > before && r.c.Garbage == "" {
				r.mis[len(r.mis)-1].Detail += " | document: " + docs[name]
			}
		})
	}
	if r.c.Garbage == "" && !r.c.Expect.Error && len(tree) > 0 && judged {
		// single-token corruptions of the valid documents: an error, never a (partially filled) value
		j := docs["json"]
		corrupt := map[string][]string{
			"json": {j + "}", j + "]", j + ",", j + " x", j + "\"s\"", j[:len(j)-1], "{" + j, strings.Replace(j, ":", "::", 1), strings.Replace(j, "{", "{,", 1)},
			"cue":  {j + "}", j + "]", j[:len(j)-1], strings.Replace(j, ":", "::", 1)},
			"toml": {docs["toml"] + "= 1\n", docs["toml"] + "[[\n", strings.Replace(docs["toml"], " = ", " = = ", 1)},
			"yaml": {docs["yaml"] + "  : : [\n", strings.Replace(docs["yaml"], ": ", ": [", 1)},
		}
		for name, cs := range corrupt {
			for _, doc := range cs {
				name, doc := name, doc
				if doc == docs[name] {
					continue // the corruption did not apply to this document
				}
				r.guard(name, func() {
					dec := sourcewrap.NewTransformingDecoder(decs[name], transform.NewAliasMangler("dials"), &transform.SetSliceMangler{})
					_, err := (&static.StringSource{Data: doc, Decoder: dec}).Value(context.Background(), dials.NewType(r.ptyp))
					if err == nil {
						r.add("C13", name, "a malformed document was accepted without an error: %q", doc)
					}
				})
			}
		}
	}
	if r.c.Garbage == "" && !r.c.Expect.Error {
		if j, ok := results["json"]; ok {
			for _, o := range []string{"yaml", "toml", "cue"} {
				if v, ok2 := results[o]; ok2 && !reflect.DeepEqual(j.Interface(), v.Interface()) {
					r.add("C13", o, "the same data decoded differently from JSON and %s", o)
				}
			}
		}
	}
}

var textUnmarshalerT = reflect.TypeOf((*encoding.TextUnmarshaler)(nil)).Elem()

// shapeDiff walks an original type and its translation by a type-preserving mangler chain in parallel (fields matched by
// name; the translation may have extra fields) and reports the first leaf whose type changed.
func shapeDiff(o, t reflect.Type, path string) string {
	for o.Kind() == reflect.Ptr && t.Kind() == reflect.Ptr {
		o, t = o.Elem(), t.Elem()
	}
	isLeaf := o.Kind() != reflect.Struct || o.Implements(textUnmarshalerT) || reflect.PtrTo(o).Implements(textUnmarshalerT)
	if !isLeaf {
		if t.Kind() != reflect.Struct {
			return fmt.Sprintf("%s: %s became %s", path, o, t)
		}
		for i := 0; i < o.NumField(); i++ {
			of := o.Field(i)
			if of.PkgPath != "" {
				continue // unexported: skipped by every mangler
			}
			tf, ok := t.FieldByName(of.Name)
			if !ok {
				return fmt.Sprintf("%s.%s: no counterpart in the translated type", path, of.Name)
			}
			if d := shapeDiff(of.Type, tf.Type, path+"."+of.Name); d != "" {
				return d
			}
		}
		return ""
	}
	switch o.Kind() {
	case reflect.Slice, reflect.Array:
		if t.Kind() != o.Kind() {
			return fmt.Sprintf("%s: %s became %s", path, o, t)
		}
		return shapeDiff(o.Elem(), t.Elem(), path+"[]")
	case reflect.Map:
		if o.Elem().Kind() == reflect.Struct && o.Elem().NumField() == 0 && t.Kind() == reflect.Slice {
			return "" // a set became a slice
		}
	}
	if o != t {
		return fmt.Sprintf("%s: %s became %s", path, o, t)
	}
	return ""
}

// fillTranslated sets every leaf it can reach in a translated value (allocating the structs on the way) and returns how
// many it set; leaves of kinds it has no value for stay unset
func fillTranslated(v reflect.Value) int {
	n := 0
	for i := 0; i < v.NumField(); i++ {
		f := v.Field(i)
		if !f.CanSet() {
			continue
		}
		switch f.Kind() {
		case reflect.Ptr:
			switch e := f.Type().Elem(); e.Kind() {
			case reflect.Struct:
				if e == reflect.TypeOf(time.Time{}) {
					continue
				}
				f.Set(reflect.New(e))
				n += fillTranslated(f.Elem())
			case reflect.Int, reflect.Int8, reflect.Int16, reflect.Int32, reflect.Int64:
				f.Set(reflect.New(e))
				f.Elem().SetInt(1)
				n++
			case reflect.Uint, reflect.Uint8, reflect.Uint16, reflect.Uint32, reflect.Uint64, reflect.Uintptr:
				f.Set(reflect.New(e))
				f.Elem().SetUint(1)
				n++
			case reflect.String:
				f.Set(reflect.New(e))
				f.Elem().SetString("x")
				n++
			case reflect.Bool:
				f.Set(reflect.New(e))
				f.Elem().SetBool(true)
				n++
			case reflect.Float32, reflect.Float64:
				f.Set(reflect.New(e))
				f.Elem().SetFloat(1.5)
				n++
			}
		case reflect.Struct:
			if f.Type() != reflect.TypeOf(time.Time{}) {
				n += fillTranslated(f)
			}
		case reflect.Slice:
			f.Set(reflect.MakeSlice(f.Type(), 0, 1))
			if et := f.Type().Elem(); et.Kind() == reflect.Struct && et != reflect.TypeOf(time.Time{}) {
				// one element, filled the same way (its fields are not pointerified)
				ev := reflect.New(et).Elem()
				fillPlain(ev)
				f.Set(reflect.Append(f, ev))
			}
			n++
		case reflect.Map:
			f.Set(reflect.MakeMap(f.Type()))
			n++
		}
	}
	return n
}

// fillPlain sets the settable scalar fields of a struct value that was not pointerified (a slice element)
func fillPlain(v reflect.Value) {
	for i := 0; i < v.NumField(); i++ {
		f := v.Field(i)
		if !f.CanSet() {
			continue
		}
		switch f.Kind() {
		case reflect.Int, reflect.Int8, reflect.Int16, reflect.Int32, reflect.Int64:
			f.SetInt(1)
		case reflect.String:
			f.SetString("x")
		case reflect.Struct:
			if f.Type() != reflect.TypeOf(time.Time{}) {
				fillPlain(f)
			}
		}
	}
}

// countSet: leaves of the case that are set in a value of the original (pointerified) type
func (r *srcRun) countSet(v reflect.Value) int {
	n := 0
	for _, l := range r.c.Expect.Leaves {
		if _, set := r.locate(v, l.ID); set {
			n++
		}
	}
	return n
}

var durSubMangler = func() transform.Mangler {
	m, err := transform.NewSingleTypeSubstitutionMangler[time.Duration, int64]()
	if err != nil {
		panic(err)
	}
	return m
}()

// the bare transformer: an empty translated value reverses to an entirely unset original
func (r *srcRun) runEmptyReverse() {
	chains := map[string][]transform.Mangler{
		"alias+flatten":              {transform.NewAliasMangler("dials", "dialsflag"), transform.DefaultFlattenMangler()},
		"alias+setslice":             {transform.NewAliasMangler("dials"), &transform.SetSliceMangler{}},
		"stringcast":                 {transform.DefaultFlattenMangler(), &transform.StringCastingMangler{}},
		"anonflatten":                {&transform.AnonymousFlattenMangler{}},
		"anonflatten+alias+setslice": {&transform.AnonymousFlattenMangler{}, transform.NewAliasMangler("dials"), &transform.SetSliceMangler{}},
		"dursub":                     {durSubMangler}, // the substitution the JSON and Cue decoders apply to durations
	}
	for name, ms := range chains {
		name, ms := name, ms
		r.guard("transformer:"+name, func() {
			tf := transform.NewTransformer(r.ptyp, ms...)
			val, err := tf.Translate()
			if err != nil {
				r.add("C10", name, "Translate failed: %v", err)
				return
			}
			if name == "alias+setslice" {
				// these manglers leave every leaf's type alone (a set becomes a slice): the translated counterpart of a leaf must
				// still be able to hold the leaf's value, wherever the leaf sits (also inside slice / array elements)
				if d := shapeDiff(r.ptyp, val.Type(), ""); d != "" {
					r.add("C10", name, "translated type cannot hold the original's values: %s", d)
				}
			}
			back, err := tf.ReverseTranslate(val)
			if err != nil {
				r.add("C10", name, "ReverseTranslate of an empty value failed: %v", err)
				return
			}
			if back.Type() != r.ptyp {
				r.add("C10", name, "ReverseTranslate returned type %s, want %s", back.Type(), r.ptyp)
				return
			}
			for _, l := range r.c.Expect.Leaves {
				if _, set := r.locate(back, l.ID); set {
					r.add("C10", name, "an empty translated value reverses to a value with leaf %d (%s) set", l.ID, l.Kind)
				}
			}
			// nil intermediate pointers stay nil
			for i, f := range r.c.Fields {
				if f.Nest != "" && f.Nest != "emb" && !back.Field(i).IsNil() {
					r.add("C10", name, "an empty translated value reverses to a value whose nested struct %s is allocated", goName(f.Name))
				}
			}
			// and a translated value with every reachable leaf filled reverses to a value with as many leaves set
			if strings.HasPrefix(name, "anonflatten") || name == "alias+setslice" || name == "dursub" {
				tf2 := transform.NewTransformer(r.ptyp, ms...)
				val2, err := tf2.Translate()
				if err != nil {
					return
				}
				filled := fillTranslated(val2)
				back2, err := tf2.ReverseTranslate(val2)
				if err != nil {
					// (filling the alias copies as well as the primaries is rightly refused)
					if !strings.Contains(name, "alias") {
						r.add("C10", name, "ReverseTranslate of a filled value failed: %v", err)
					}
					return
				}
				if got := r.countSet(back2); filled > 0 && got == 0 {
					r.add("C10", name, "%d leaves were filled in the translated value, none is set after reverse translation", filled)
				}
			}
		})
	}
}

func runSourcesCase(c srcCase) []sMisS {
	r := &srcRun{c: c}
	var fs []reflect.StructField
	for _, f := range c.Fields {
		fs = append(fs, srcStructField(f))
	}
	func() {
		defer func() {
			if rec := recover(); rec != nil {
				r.add("C16", "type", "building / pointerifying the type panicked: %v", rec)
			}
		}()
		r.typ = reflect.StructOf(fs)
		r.ptyp = ptrify.Pointerify(r.typ, reflect.New(r.typ).Elem())
	}()
	if r.ptyp == nil {
		return r.mis
	}
	r.runEnv()
	r.runFlags("flag")
	r.runFlags("pflag")
	r.runDecoders()
	if c.Garbage == "" {
		r.runEmptyReverse()
	}
	return r.mis
}

func sourcesMain(args []string) {
	if len(args) < 2 {
		fatalf("usage: vh sources <cases.ndjson> <results.ndjson>")
	}
	in, err := os.Open(args[0])
	if err != nil {
		fatalf("%v", err)
	}
	outf, err := os.Create(args[1])
	if err != nil {
		fatalf("%v", err)
	}
	out := bufio.NewWriterSize(outf, 1<<16)
	scn := bufio.NewScanner(in)
	scn.Buffer(make([]byte, 1<<20), 1<<24)
	n := 0
	for scn.Scan() {
		line := strings.TrimSpace(scn.Text())
		if line == "" {
			continue
		}
		var c srcCase
		if err := json.Unmarshal([]byte(line), &c); err != nil {
			fatalf("bad case: %v: %s", err, line[:200])
		}
		fmt.Fprintf(out, "{\"begin\":%q}\n", c.ID)
		out.Flush()
		mis := runSourcesCase(c)
		if len(mis) > 0 {
			b, _ := json.Marshal(map[string]any{"id": c.ID, "mismatches": mis})
			out.Write(b)
			out.WriteByte('\n')
		}
		n++
	}
	b, _ := json.Marshal(map[string]any{"final": true, "cases": n})
	out.Write(b)
	out.WriteByte('\n')
	out.Flush()
	outf.Close()
}
