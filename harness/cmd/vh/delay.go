package main

// Delay driver (C09): executes the histories of spec/Delay.tla against the real
// library for a config type with and one without a Verify method and compares
// the delivery of the global callbacks with the model.

import (
	"bufio"
	"context"
	"encoding/json"
	"errors"
	"fmt"
	"os"
	"reflect"
	"strings"
	"sync/atomic"
	"time"

	"github.com/vimeo/dials"
)

type dlStep struct {
	Op        string `json:"op"`
	Delivered bool   `json:"delivered"`
}

type dlCase struct {
	ID         string   `json:"id"`
	Delay      bool     `json:"delay"`
	Suppress   bool     `json:"suppress"`
	Verifiable bool     `json:"verifiable"`
	Hist       []dlStep `json:"hist"`
}

// DV has a Verify method (every value passes), DN has none.
type DV struct{ A int }

func (*DV) Verify() error { return nil }

type DN struct{ A int }

type dlSrc struct {
	typ *dials.Type
	wa  dials.WatchArgs
}

func (s *dlSrc) Value(_ context.Context, t *dials.Type) (reflect.Value, error) {
	s.typ = t
	return reflect.New(t.Type()).Elem(), nil
}
func (s *dlSrc) Watch(_ context.Context, _ *dials.Type, wa dials.WatchArgs) error {
	s.wa = wa
	return nil
}

func runDelay[T any](c dlCase) (mis []string) {
	defer func() {
		if r := recover(); r != nil {
			mis = append(mis, fmt.Sprint("panic: ", r))
		}
	}()
	ctx, cancel := context.WithCancel(context.Background())
	defer cancel()
	var nNew, nErr atomic.Int64
	src := &dlSrc{}
	p := dials.Params[T]{
		DelayInitialVerification:                    c.Delay,
		CallGlobalCallbacksAfterVerificationEnabled: c.Suppress,
		OnNewConfig:    func(context.Context, *T, *T) { nNew.Add(1) },
		OnWatchedError: func(context.Context, error, *T, *T) { nErr.Add(1) },
	}
	d, err := p.Config(ctx, new(T), src)
	if err != nil {
		return []string{"Config failed: " + err.Error()}
	}
	wantNew, wantErr := int64(0), int64(0)
	waitFor := func(ctr *atomic.Int64, want int64) {
		dl := time.Now().Add(5 * time.Second) // only used up when the callback never comes
		for ctr.Load() < want && time.Now().Before(dl) {
			time.Sleep(50 * time.Microsecond)
		}
	}
	for i, h := range c.Hist {
		octx, ocancel := context.WithTimeout(ctx, 10*time.Second)
		switch h.Op {
		case "val":
			v := reflect.New(src.typ.Type()).Elem()
			a := i + 1
			v.FieldByName("A").Set(reflect.ValueOf(&a))
			if e := src.wa.BlockingReportNewValue(octx, v); e != nil {
				mis = append(mis, fmt.Sprintf("step %d: blocking report of a valid value failed: %v", i, e))
			}
			if h.Delivered {
				wantNew++
			}
		case "err":
			if e := src.wa.ReportError(octx, errors.New("source-error")); e != nil {
				mis = append(mis, fmt.Sprintf("step %d: ReportError failed: %v", i, e))
			}
			if h.Delivered {
				wantErr++
			}
		case "enable":
			_, _, e := d.EnableVerification(octx)
			if c.Delay && e != nil && !strings.Contains(e.Error(), "already") {
				// (a second call after a successful one may be told so; the first one must succeed: every value is valid)
				first := true
				for _, p := range c.Hist[:i] {
					if p.Op == "enable" {
						first = false
					}
				}
				if first {
					mis = append(mis, fmt.Sprintf("step %d: EnableVerification failed although the installed config is valid: %v", i, e))
				}
			}
		}
		ocancel()
		waitFor(&nNew, wantNew)
		waitFor(&nErr, wantErr)
		time.Sleep(300 * time.Microsecond)
		if g := nNew.Load(); g != wantNew {
			mis = append(mis, fmt.Sprintf("step %d (%s): OnNewConfig has been called %d times, expected %d (delay=%v suppress-until-enabled=%v, type has Verify=%v)", i, h.Op, g, wantNew, c.Delay, c.Suppress, c.Verifiable))
			return
		}
		if g := nErr.Load(); g != wantErr {
			mis = append(mis, fmt.Sprintf("step %d (%s): OnWatchedError has been called %d times, expected %d (delay=%v suppress-until-enabled=%v, type has Verify=%v)", i, h.Op, g, wantErr, c.Delay, c.Suppress, c.Verifiable))
			return
		}
	}
	// nothing withheld arrives late
	time.Sleep(2 * time.Millisecond)
	if nNew.Load() != wantNew || nErr.Load() != wantErr {
		mis = append(mis, fmt.Sprintf("after the history: OnNewConfig %d (expected %d), OnWatchedError %d (expected %d)", nNew.Load(), wantNew, nErr.Load(), wantErr))
	}
	return mis
}

func delayMain(args []string) {
	if len(args) < 2 {
		fatalf("usage: vh delay <cases.ndjson> <results.ndjson>")
	}
	in, err := os.Open(args[0])
	if err != nil {
		fatalf("%v", err)
	}
	outf, err := os.Create(args[1])
	if err != nil {
		fatalf("%v", err)
	}
	out := bufio.NewWriter(outf)
	scn := bufio.NewScanner(in)
	scn.Buffer(make([]byte, 1<<20), 1<<24)
	n := 0
	for scn.Scan() {
		line := strings.TrimSpace(scn.Text())
		if line == "" {
			continue
		}
		var c dlCase
		if err := json.Unmarshal([]byte(line), &c); err != nil {
			fatalf("bad case: %v", err)
		}
		fmt.Fprintf(out, "{\"begin\":%q}\n", c.ID)
		out.Flush()
		var mis []string
		if c.Verifiable {
			mis = runDelay[DV](c)
		} else {
			mis = runDelay[DN](c)
		}
		var ms []map[string]any
		for _, m := range mis {
			ms = append(ms, map[string]any{"kind": "prop", "detail": m})
		}
		b, _ := json.Marshal(map[string]any{"id": c.ID, "mismatches": ms})
		out.Write(b)
		out.WriteByte('\n')
		n++
	}
	leaked := waitNoDialsGoroutines(3 * time.Second)
	b, _ := json.Marshal(map[string]any{"final": true, "cases": n, "leaked": len(leaked)})
	out.Write(b)
	out.WriteByte('\n')
	out.Flush()
	outf.Close()
}
