package main

// Case-conversion driver (C19): compares tagformat/caseconversion with the
// character-level reference encodings emitted by TLC from spec/CaseConv.tla
// and checks that every matched decoder inverts its encoder; Go identifiers
// assembled from a vocabulary must decode into exactly their items.

import (
	"bufio"
	"encoding/json"
	"fmt"
	"os"
	"reflect"
	"strings"

	cc "github.com/vimeo/dials/tagformat/caseconversion"
)

type ccCase struct {
	ID    string            `json:"id"`
	Kind  string            `json:"kind"`
	Words []string          `json:"words"`
	Enc   map[string]string `json:"enc"`
	Items []string          `json:"items"`
	Name  string            `json:"name"`
}

type ccScheme struct {
	name string
	enc  cc.EncodeCasingFunc
	dec  cc.DecodeCasingFunc
}

var ccSchemes = []ccScheme{
	{"upperCamel", cc.EncodeUpperCamelCase, cc.DecodeUpperCamelCase},
	{"lowerCamel", cc.EncodeLowerCamelCase, cc.DecodeLowerCamelCase},
	{"lowerSnake", cc.EncodeLowerSnakeCase, cc.DecodeLowerSnakeCase},
	{"upperSnake", cc.EncodeUpperSnakeCase, cc.DecodeUpperSnakeCase},
	{"kebab", cc.EncodeKebabCase, cc.DecodeKebabCase},
	{"preservingSnake", cc.EncodeCasePreservingSnakeCase, cc.DecodeCasePreservingSnakeCase},
}

func runCCCase(c ccCase) (mis []map[string]any) {
	add := func(kind, d string) { mis = append(mis, map[string]any{"kind": kind, "detail": d}) }
	defer func() {
		if r := recover(); r != nil {
			add("prop", fmt.Sprint("panic: ", r))
		}
	}()
	if c.Kind == "total" {
		// C16: no identifier text makes a decoder panic, and whatever a decoder accepts no encoder panics on
		decs := map[string]cc.DecodeCasingFunc{"goCamel": cc.DecodeGoCamelCase, "goTags": cc.DecodeGoTags}
		for _, s := range ccSchemes {
			decs[s.name] = s.dec
		}
		for dn, dec := range decs {
			func() {
				stage := "Decode"
				defer func() {
					if r := recover(); r != nil {
						add("prop", fmt.Sprintf("%s(%q) [%s]: panic: %v", stage, c.Name, dn, r))
					}
				}()
				words, err := dec(c.Name)
				if err != nil {
					return
				}
				for _, s := range ccSchemes {
					stage = fmt.Sprintf("Encode[%s] of the words %q that Decode[%s] made", s.name, []string(words), dn)
					_ = s.enc(append(cc.DecodedIdentifier{}, words...))
				}
			}()
		}
		return
	}
	if c.Kind == "words" {
		for _, s := range ccSchemes {
			got := s.enc(cc.DecodedIdentifier(append([]string{}, c.Words...)))
			if got != c.Enc[s.name] {
				add("model", fmt.Sprintf("%s: Encode(%v) = %q, the reference encoding is %q", s.name, c.Words, got, c.Enc[s.name]))
			}
			back, err := s.dec(got)
			if err != nil {
				add("prop", fmt.Sprintf("%s: Decode(Encode(%v) = %q) failed: %v", s.name, c.Words, got, err))
			} else if !reflect.DeepEqual([]string(back), c.Words) {
				add("prop", fmt.Sprintf("%s: Decode(Encode(%v) = %q) = %v", s.name, c.Words, got, []string(back)))
			}
		}
		return
	}
	want := make([]string, len(c.Items))
	for i, it := range c.Items {
		want[i] = strings.ToLower(it)
	}
	got, err := cc.DecodeGoCamelCase(c.Name)
	if err != nil {
		add("prop", fmt.Sprintf("DecodeGoCamelCase(%q) failed: %v", c.Name, err))
	} else if !reflect.DeepEqual([]string(got), want) {
		add("prop", fmt.Sprintf("DecodeGoCamelCase(%q) = %v, the identifier is made of %v", c.Name, []string(got), want))
	}
	return
}

func ccMain(args []string) {
	if len(args) < 2 {
		fatalf("usage: vh caseconv <cases.ndjson> <results.ndjson>")
	}
	in, err := os.Open(args[0])
	if err != nil {
		fatalf("%v", err)
	}
	outf, err := os.Create(args[1])
	if err != nil {
		fatalf("%v", err)
	}
	out := bufio.NewWriterSize(outf, 1<<16)
	scn := bufio.NewScanner(in)
	scn.Buffer(make([]byte, 1<<20), 1<<24)
	n := 0
	for scn.Scan() {
		line := strings.TrimSpace(scn.Text())
		if line == "" {
			continue
		}
		var c ccCase
		if err := json.Unmarshal([]byte(line), &c); err != nil {
			fatalf("bad case: %v", err)
		}
		if mis := runCCCase(c); len(mis) > 0 {
			b, _ := json.Marshal(map[string]any{"id": c.ID, "mismatches": mis})
			out.Write(b)
			out.WriteByte('\n')
		}
		n++
	}
	b, _ := json.Marshal(map[string]any{"final": true, "cases": n})
	out.Write(b)
	out.WriteByte('\n')
	out.Flush()
	outf.Close()
}
