package main

// Wrap driver (C20): executes operation sequences emitted by TLC from
// spec/Wrap.tla against the real sourcewrap.Blank / NewTransformingSource and
// compares, after every operation, (a) the view with a reference Dials that is
// fed the same values natively (the property's own oracle) and (b) the
// observable state with the model's prediction.

import (
	"bufio"
	"context"
	"encoding/json"
	"errors"
	"fmt"
	"os"
	"reflect"
	"sort"
	"strings"
	"sync/atomic"
	"time"

	"github.com/vimeo/dials"
	"github.com/vimeo/dials/sourcewrap"
	"github.com/vimeo/dials/tagformat"
	"github.com/vimeo/dials/tagformat/caseconversion"
	"github.com/vimeo/dials/transform"
)

type WCfg struct {
	A int                 `dials:"a" dialsalias:"olda"`
	S map[string]struct{} `dials:"s"`
	// L mirrors S (unset / empty / as many elements as S has members): a slice of structs, which the transformer walks
	L []WItem `dials:"l"`
}

type WItem struct {
	N int `dials:"n"`
}

// Verify rejects the value 13 (Wrap.tla: Bad)
func (c *WCfg) Verify() error {
	if c.A == 13 {
		return errors.New("verify-bad a=13")
	}
	return nil
}

type wstep struct {
	Op     string `json:"op"`
	A      int    `json:"a"`
	S      string `json:"s"`
	Wrap   string `json:"wrap"`
	Via    string `json:"via"`
	Flag   bool   `json:"flag"`
	Err    bool   `json:"err"`
	Took   bool   `json:"took"`
	Ovl    bool   `json:"ovl"` // issued while the previous SetSource was still inside its source's Value()
	SlotA  int    `json:"slota"`
	SlotS  string `json:"slots"`
	Alive  bool   `json:"alive"`
	Errs   int    `json:"errs"`
	Broken bool   `json:"broken"`
}

type wcase struct {
	ID    string  `json:"id"`
	Mode  string  `json:"mode"`
	Outer string  `json:"outer"` // tblank: the mangler list of the transforming source around the Blank
	Hist  []wstep `json:"hist"`
}

type wmis struct {
	Step   int    `json:"step"`
	Kind   string `json:"kind"` // ref | model | panic | hang | ctx
	Detail string `json:"detail"`
	C07    bool   `json:"c07,omitempty"` // also a breach of C07 (what a blocking path's return value promises)
}

const aliasSuffix = "_alias9wr876rw3"

func wmanglers(w string) []transform.Mangler {
	switch w {
	case "set":
		return []transform.Mangler{&transform.SetSliceMangler{}}
	case "tag":
		return []transform.Mangler{tagformat.NewTagReformattingMangler("dials", caseconversion.DecodeLowerSnakeCase, caseconversion.EncodeUpperCamelCase)}
	case "alias":
		return []transform.Mangler{transform.NewAliasMangler("dials")}
	case "aliasset":
		return []transform.Mangler{transform.NewAliasMangler("dials"), &transform.SetSliceMangler{}}
	}
	return nil
}

func setOf(s string) []string {
	switch s {
	case "p":
		return []string{"p"}
	case "pq":
		return []string{"p", "q"}
	}
	return []string{}
}

// wbuild fills a value of the (possibly mangled) type t the way a source would.
func wbuild(t reflect.Type, a int, s, via string) reflect.Value {
	out := reflect.New(t).Elem()
	if a != 0 {
		name := "A"
		if via == "alias" {
			name = "A" + aliasSuffix
		}
		f := out.FieldByName(name)
		if !f.IsValid() {
			panic(fmt.Sprintf("harness: type %s has no field %s", t, name))
		}
		v := a
		f.Set(reflect.ValueOf(&v))
	}
	if s != "unset" {
		f := out.FieldByName("S")
		switch f.Kind() {
		case reflect.Slice:
			f.Set(reflect.ValueOf(setOf(s)))
		case reflect.Map:
			m := map[string]struct{}{}
			for _, e := range setOf(s) {
				m[e] = struct{}{}
			}
			f.Set(reflect.ValueOf(m))
		default:
			panic("harness: unexpected kind for S: " + f.Kind().String())
		}
		lf := out.FieldByName("L")
		n := len(setOf(s))
		sl := reflect.MakeSlice(lf.Type(), n, n) // empty, not nil, when the set is empty
		for i := 0; i < n; i++ {
			sl.Index(i).FieldByName("N").SetInt(int64(i + 1))
		}
		lf.Set(sl)
	}
	return out
}

type winner struct {
	a         int
	s, via    string
	failValue bool
	failWatch bool
	watcher   bool
	typ       *dials.Type
	wa        dials.WatchArgs
	watchCtx  context.Context // what Watch was given: a well-behaved watcher lives and reports under it
	entered   chan struct{}   // non-nil: Value announces itself and waits for gate (overlapped SetSource calls)
	gate      chan struct{}
	live      *atomic.Int64 // watchers whose Watch context has not ended yet
}

func (w *winner) Value(_ context.Context, t *dials.Type) (reflect.Value, error) {
	if w.entered != nil {
		close(w.entered)
		<-w.gate
	}
	if w.failValue {
		return reflect.Value{}, errors.New("inner-value-failed")
	}
	w.typ = t
	return wbuild(t.Type(), w.a, w.s, w.via), nil
}

type winnerW struct{ *winner }

func (w winnerW) Watch(ctx context.Context, t *dials.Type, wa dials.WatchArgs) error {
	if w.failWatch {
		return errors.New("inner-watch-failed")
	}
	w.typ = t
	w.wa = wa
	w.watchCtx = ctx
	if w.live != nil {
		// like a real watcher: a goroutine that lives until the context Watch was given ends
		w.live.Add(1)
		go func() { <-ctx.Done(); w.live.Add(-1) }()
	}
	return nil
}

func wsource(in *winner, wrap string) dials.Source {
	var s dials.Source = in
	if in.watcher {
		s = winnerW{in}
	}
	if wrap != "none" {
		return sourcewrap.NewTransformingSource(s, wmanglers(wrap)...)
	}
	return s
}

// reference: a plain watching source fed the already-unmangled values
type wref struct {
	wa  dials.WatchArgs
	typ *dials.Type
}

func (r *wref) Value(_ context.Context, t *dials.Type) (reflect.Value, error) {
	r.typ = t
	return reflect.New(t.Type()).Elem(), nil
}
func (r *wref) Watch(_ context.Context, t *dials.Type, wa dials.WatchArgs) error {
	r.wa = wa
	return nil
}

func showW(c *WCfg) string {
	keys := make([]string, 0, len(c.S))
	for k := range c.S {
		keys = append(keys, k)
	}
	sort.Strings(keys)
	nilS := ""
	if c.S == nil {
		nilS = "(nil)"
	}
	return fmt.Sprintf("{A:%d S:%v%s L:%v(nil=%v)}", c.A, keys, nilS, c.L, c.L == nil)
}

func runWrapCase(c wcase) (mis []wmis) {
	step := -1
	defer func() {
		if r := recover(); r != nil {
			mis = append(mis, wmis{step, "panic", fmt.Sprint(r), false})
		}
	}()
	ctx, cancel := context.WithCancel(context.Background())
	defer cancel()
	def := func() *WCfg { return &WCfg{A: 7, S: map[string]struct{}{"d": {}}, L: []WItem{{N: 9}}} }
	var errCount, refErrCount atomic.Int64
	p := dials.Params[WCfg]{OnWatchedError: func(context.Context, error, *WCfg, *WCfg) { errCount.Add(1) }}
	rp := dials.Params[WCfg]{OnWatchedError: func(context.Context, error, *WCfg, *WCfg) { refErrCount.Add(1) }}
	ref := &wref{}
	rd, err := rp.Config(ctx, def(), ref)
	if err != nil {
		panic("reference config failed: " + err.Error())
	}
	var d *dials.Dials[WCfg]
	blank := &sourcewrap.Blank{}
	var cur *winner // the inner watcher that may report
	hist := c.Hist
	refSet := func(a int, s string) {
		if e := ref.wa.BlockingReportNewValue(ctx, wbuild(ref.typ.Type(), a, s, "primary")); e != nil {
			panic("reference report failed: " + e.Error())
		}
	}
	if c.Mode == "blank" || c.Mode == "tblank" {
		var slot dials.Source = blank
		if c.Mode == "tblank" {
			slot = sourcewrap.NewTransformingSource(blank, wmanglers(c.Outer)...)
		}
		d, err = p.Config(ctx, def(), slot)
		if err != nil {
			return []wmis{{-1, "ref", "Config with a Blank failed: " + err.Error(), false}}
		}
	} else {
		if len(hist) == 0 || hist[0].Op != "configure" {
			return nil
		}
		h := hist[0]
		cur = &winner{a: h.A, s: h.S, via: h.Via, watcher: true}
		d, err = p.Config(ctx, def(), wsource(cur, h.Wrap))
		if err != nil {
			return []wmis{{0, "ref", "Config with a wrapped watching source failed: " + err.Error(), false}}
		}
		refSet(h.A, h.S)
		if !reflect.DeepEqual(d.View(), rd.View()) {
			mis = append(mis, wmis{0, "ref", fmt.Sprintf("initial view %s, natively %s", showW(d.View()), showW(rd.View())), false})
		}
		hist = hist[1:]
	}
	alive := true
	waitView := func(want *WCfg) bool {
		dl := time.Now().Add(5 * time.Second) // only used up when the view never gets there
		for {
			if reflect.DeepEqual(d.View(), want) {
				return true
			}
			if time.Now().After(dl) {
				return false
			}
			time.Sleep(50 * time.Microsecond)
		}
	}
	var lastStaticIn *winner
	var lastStaticSrc dials.Source
	// watcher goroutines started through the Blank must end with the Config context, whatever context SetSource was called
	// with: in half of the cases that context is independent of the Config context and stays alive until the very end
	var live atomic.Int64
	longCalls := len(c.ID)%2 == 0
	var late []context.CancelFunc
	defer func() {
		cancel()
		dl := time.Now().Add(5 * time.Second)
		for live.Load() > 0 && time.Now().Before(dl) {
			time.Sleep(100 * time.Microsecond)
		}
		if n := live.Load(); n > 0 && longCalls {
			mis = append(mis, wmis{len(hist), "leak", fmt.Sprintf("%d watcher goroutine(s) started through the Blank are still running after the Config context was cancelled (their Watch context was not the Config's)", n), false})
		}
		for _, f := range late {
			f()
		}
	}()
	mkInner := func(h wstep) *winner {
		return &winner{a: h.A, s: h.S, via: h.Via, watcher: h.Op == "setwatcher", failWatch: h.Op == "setwatcher" && !h.Flag}
	}
	skipNext := false
	for i, h := range hist {
		step = i
		if c.Mode == "direct" {
			step = i + 1
		}
		if skipNext {
			skipNext = false
			continue
		}
		if i+1 < len(hist) && hist[i+1].Ovl {
			// two SetSource calls that overlap in time: the second is issued while the first is inside its source's
			// Value(); the Blank serialises them, so the outcome is that of first-then-second
			h2 := hist[i+1]
			in1, in2 := mkInner(h), mkInner(h2)
			src1, src2 := wsource(in1, h.Wrap), wsource(in2, h2.Wrap)
			if h.Op == "setstatic" {
				lastStaticIn, lastStaticSrc = in1, src1
			}
			if h2.Op == "setstatic" {
				lastStaticIn, lastStaticSrc = in2, src2
			}
			in1.entered, in1.gate = make(chan struct{}), make(chan struct{})
			var err1, err2 error
			done1, done2 := make(chan struct{}), make(chan struct{})
			// with the monitor gone each call can only end by its context expiring (as the model predicts)
			pairTimeout := 5 * time.Second
			if !alive {
				pairTimeout = 300 * time.Millisecond
			}
			pctx, pcancel := context.WithTimeout(ctx, pairTimeout)
			go func() { defer close(done1); err1 = blank.SetSource(pctx, src1) }()
			select {
			case <-in1.entered:
			case <-done1: // refused before its source was consulted
			case <-time.After(time.Second):
			}
			go func() { defer close(done2); err2 = blank.SetSource(pctx, src2) }()
			select {
			case <-done2:
			case <-time.After(60 * time.Millisecond):
			}
			close(in1.gate)
			hung := false
			for _, dch := range []chan struct{}{done1, done2} {
				select {
				case <-dch:
				case <-time.After(20 * time.Second):
					hung = true
				}
			}
			pcancel()
			if hung {
				mis = append(mis, wmis{step, "hang", "overlapping SetSource calls did not return", false})
				return
			}
			if err1 == nil && in1.watcher {
				cur = in1
			}
			if err2 == nil && in2.watcher {
				cur = in2
			}
			for k, hh := range []wstep{h, h2} {
				if hh.Took {
					refSet(hh.A, hh.S)
				}
				e := []error{err1, err2}[k]
				if (e != nil) != hh.Err {
					mis = append(mis, wmis{step + k, "ref", fmt.Sprintf("overlapping SetSource calls, call %d (%s a=%d): error=%v, but serialised (first call first) it is error=%v", k+1, hh.Op, hh.A, e, hh.Err), false})
				}
			}
			if !waitView(rd.View()) {
				mis = append(mis, wmis{step + 1, "ref", fmt.Sprintf("after overlapping %s(a=%d) and %s(a=%d): view %s, serialised (first call first) it is %s",
					h.Op, h.A, h2.Op, h2.A, showW(d.View()), showW(rd.View())), true})
			}
			skipNext = true
			continue
		}
		var opErr error
		// an operation the model expects to work gets a generous deadline (a loaded machine must not look like a hang); with
		// the monitor gone every report can only end by its context expiring, and that is what the model predicts
		opTimeout := 5 * time.Second
		if !alive {
			opTimeout = 150 * time.Millisecond
		}
		opctx, opcancel := context.WithTimeout(ctx, opTimeout)
		if longCalls && h.Op == "setwatcher" && alive {
			// SetSource's own context: not derived from the Config context and not ended after the call
			opcancel()
			var endLater context.CancelFunc
			opctx, endLater = context.WithTimeout(context.Background(), opTimeout+30*time.Second)
			late = append(late, endLater)
			opcancel = func() {}
		}
		switch h.Op {
		case "setstatic", "setfailing", "setwatcher", "setagain":
			in := &winner{a: h.A, s: h.S, via: h.Via, watcher: h.Op == "setwatcher", failWatch: h.Op == "setwatcher" && !h.Flag,
				failValue: h.Op == "setfailing", live: &live}
			src := wsource(in, h.Wrap)
			if h.Op == "setfailing" {
				src = in
			}
			if h.Op == "setstatic" {
				lastStaticIn, lastStaticSrc = in, src
			}
			if h.Op == "setagain" {
				// the very same source object once more, its data changed in between
				if lastStaticSrc == nil {
					mis = append(mis, wmis{step, "model", "harness: no earlier non-watching source to set again", false})
					opcancel()
					return
				}
				lastStaticIn.a, lastStaticIn.s, lastStaticIn.via = h.A, h.S, h.Via
				in, src = lastStaticIn, lastStaticSrc
			}
			// SetSource is bounded by the context it is given (C07): it must be back soon after that context ended
			ret := make(chan error, 1)
			go func() { ret <- blank.SetSource(opctx, src) }()
			select {
			case opErr = <-ret:
			case <-time.After(opTimeout + 10*time.Second):
				mis = append(mis, wmis{step, "ctx", fmt.Sprintf("%s: SetSource had not returned 10 s after its context ended (context of %v)", h.Op, opTimeout), true})
				opcancel()
				return
			}
			if opErr == nil && h.Op == "setwatcher" {
				cur = in
			}
		case "report", "reportblocking":
			if cur == nil || cur.wa == nil {
				mis = append(mis, wmis{step, "model", "harness: no reporting inner source", false})
				opcancel()
				return
			}
			cur.a, cur.s, cur.via = h.A, h.S, h.Via
			val := wbuild(cur.typ.Type(), h.A, h.S, h.Via)
			// like a real watcher, the inner source reports under the context its Watch method was given
			rctx, rcancel := context.WithTimeout(cur.watchCtx, opTimeout)
			if h.Op == "report" {
				opErr = cur.wa.ReportNewValue(rctx, val)
			} else {
				opErr = cur.wa.BlockingReportNewValue(rctx, val)
			}
			rcancel()
		case "reporterror":
			opErr = cur.wa.ReportError(opctx, errors.New("inner-reported-error"))
			ref.wa.ReportError(ctx, errors.New("inner-reported-error"))
		case "innerdone":
			cur.wa.Done(opctx)
		case "blankdone":
			blank.Done(opctx)
		}
		opcancel()
		// the reference gets the value natively whenever the model says the slot took it
		if h.Took {
			refSet(h.A, h.S)
		}
		// a blocking path (SetSource, BlockingReportNewValue) that returned nil has its value installed already
		if h.Took && opErr == nil && h.Op != "report" && !reflect.DeepEqual(d.View(), rd.View()) {
			mis = append(mis, wmis{step, "ref", fmt.Sprintf("%s(a=%d s=%s wrap=%s) returned nil before its value was visible: view %s, natively fed reference %s",
				h.Op, h.A, h.S, h.Wrap, showW(d.View()), showW(rd.View())), true})
		}
		// (a) the property's oracle: same view as the natively fed reference
		if !waitView(rd.View()) {
			mis = append(mis, wmis{step, "ref", fmt.Sprintf("after %s(a=%d s=%s wrap=%s via=%s): view %s, natively fed reference %s",
				h.Op, h.A, h.S, h.Wrap, h.Via, showW(d.View()), showW(rd.View())), strings.HasPrefix(h.Op, "set") || h.Op == "reportblocking"})
		}
		// errors are propagated, not swallowed
		if h.Op == "setfailing" && opErr == nil {
			mis = append(mis, wmis{step, "ref", "SetSource with a source whose Value fails returned nil", false})
		}
		if h.Op == "setwatcher" && !h.Flag && alive && opErr == nil && h.Err {
			mis = append(mis, wmis{step, "ref", "SetSource returned nil although the inner Watch failed", false})
		}
		// errors are propagated, not swallowed: a value that Verify rejects comes back as an error from every blocking path
		if h.A == 13 && h.Err && opErr == nil && alive && h.Op != "report" {
			mis = append(mis, wmis{step, "ref", fmt.Sprintf("%s(a=13, which Verify rejects) returned nil: the rejection was swallowed", h.Op), true})
		}
		// (b) the model's prediction
		if (opErr != nil) != h.Err && h.Op != "innerdone" && h.Op != "blankdone" {
			mis = append(mis, wmis{step, "model", fmt.Sprintf("%s: error=%v, model predicts error=%v", h.Op, opErr, h.Err), false})
		}
		if h.Op == "reporterror" || int64(h.Errs) != errCount.Load() {
			dl := time.Now().Add(5 * time.Second)
			for errCount.Load() < int64(h.Errs) && time.Now().Before(dl) {
				time.Sleep(50 * time.Microsecond)
			}
			if errCount.Load() != int64(h.Errs) {
				mis = append(mis, wmis{step, "ref", fmt.Sprintf("%s: OnWatchedError has been called %d times, expected %d (errors reported by the wrapped watcher and rejected values)", h.Op, errCount.Load(), h.Errs), false})
			}
		}
		if alive != h.Alive {
			// the monitor must exit now: only the reference's two goroutines may remain
			alive = h.Alive
			dl := time.Now().Add(5 * time.Second)
			for len(dialsGoroutines()) > 2 && time.Now().Before(dl) {
				time.Sleep(100 * time.Microsecond)
			}
			if n := len(dialsGoroutines()); n > 2 {
				mis = append(mis, wmis{step, "ref", fmt.Sprintf("%s: the monitor and callback goroutines did not exit (%d library goroutines left, 2 belong to the reference)", h.Op, n), false})
			}
		} else if alive && (h.Op == "blankdone" || h.Op == "innerdone") {
			// Done must not have been forwarded: the library goroutines are still there
			time.Sleep(200 * time.Microsecond)
			if n := len(dialsGoroutines()); n < 4 {
				mis = append(mis, wmis{step, "ref", fmt.Sprintf("%s: the monitor exited although the Blank no longer owns the slot (%d library goroutines left)", h.Op, n), false})
			}
		}
	}
	return mis
}

func wrapMain(args []string) {
	if len(args) < 2 {
		fatalf("usage: vh wrap <cases.ndjson> <results.ndjson>")
	}
	in, err := os.Open(args[0])
	if err != nil {
		fatalf("%v", err)
	}
	outf, err := os.Create(args[1])
	if err != nil {
		fatalf("%v", err)
	}
	out := bufio.NewWriter(outf)
	scn := bufio.NewScanner(in)
	scn.Buffer(make([]byte, 1<<20), 1<<24)
	n, failed, aborted := 0, 0, false
	for scn.Scan() {
		line := strings.TrimSpace(scn.Text())
		if line == "" {
			continue
		}
		var c wcase
		if err := json.Unmarshal([]byte(line), &c); err != nil {
			fatalf("bad case: %v", err)
		}
		fmt.Fprintf(out, "{\"begin\":%q}\n", c.ID)
		out.Flush()
		mis := runWrapCase(c)
		b, _ := json.Marshal(map[string]any{"id": c.ID, "mismatches": mis, "steps": len(c.Hist)})
		out.Write(b)
		out.WriteByte('\n')
		n++
		if len(mis) > 0 {
			failed++
		}
		if failed >= 8 {
			// the verdict is settled; every further failing case would sit out its generous deadlines
			aborted = true
			break
		}
	}
	// goroutine hygiene: everything was cancelled case by case
	leaked := waitNoDialsGoroutines(3 * time.Second)
	b, _ := json.Marshal(map[string]any{"final": true, "cases": n, "leaked": len(leaked), "aborted": aborted})
	out.Write(b)
	out.WriteByte('\n')
	out.Flush()
	outf.Close()
}
