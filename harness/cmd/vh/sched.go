package main

// Gate scheduler and tracer shared by the kernel / blank / ez drivers.
//
// Every instrumented point of the library (build tag verif) calls hook().  In
// gated mode a gate point parks the calling goroutine until the scheduler
// releases it, so at most one goroutine (two for a rendezvous) runs between two
// scheduler decisions and the recorded order is exact.  In free mode the hook
// only records the event (sequence number assigned under the tracer's mutex).

import (
	"bufio"
	"context"
	"encoding/json"
	"fmt"
	"os"
	"runtime"
	"strings"
	"sync"
	"sync/atomic"
	"time"
	"unsafe"
)

type schedKey struct{}
type gidKey struct{}

// Ev is one trace event.
type Ev map[string]any

type arrival struct {
	g, point string
	kv       []any
	resume   chan struct{}
	final    bool
	gate     bool
}

type Sched struct {
	sc string // scenario id

	mu     sync.Mutex
	seq    int
	step   int
	out    *bufio.Writer
	gated  atomic.Bool // park at gates
	active atomic.Bool // record events at all

	arrivals chan *arrival
	parked   map[string]*arrival
	running  int
	done     map[string]bool // goroutines that finished

	onEvent func(g, point string, kv map[string]any, gate bool) // shadow-state update, called under mu
	rewrite func(g, point string, kv []any) map[string]any      // converts raw kv to loggable fields, called under mu

	anomalies []string
	jitter    uint32 // free mode: 1/jitter gates yield
	rnd       uint64
}

func newSched(sc string, out *bufio.Writer) *Sched {
	s := &Sched{sc: sc, out: out, arrivals: make(chan *arrival, 64), parked: map[string]*arrival{}, done: map[string]bool{}}
	s.active.Store(true)
	return s
}

func (s *Sched) ctx(parent context.Context, gid string) context.Context {
	c := context.WithValue(parent, schedKey{}, s)
	if gid != "" {
		c = context.WithValue(c, gidKey{}, gid)
	}
	return c
}

func gidOf(ctx context.Context, point string) string {
	switch {
	case strings.HasPrefix(point, "mon."):
		return "mon"
	case strings.HasPrefix(point, "cb.") || point == "cbenter" || point == "cbexit":
		return "cb"
	case strings.HasPrefix(point, "fw."):
		return "fw"
	}
	if id, ok := ctx.Value(gidKey{}).(string); ok {
		return id
	}
	return "?"
}

// hook is installed as dials.VerifHook (and the other packages' hooks).
func hook(ctx context.Context, gate bool, point string, kv ...any) {
	s, ok := ctx.Value(schedKey{}).(*Sched)
	if !ok || s == nil || !s.active.Load() {
		return
	}
	s.Point(ctx, gate, point, kv...)
}

// Point records an event; a gate parks the goroutine in gated mode.
func (s *Sched) Point(ctx context.Context, gate bool, point string, kv ...any) {
	g := gidOf(ctx, point)
	if gate && s.gated.Load() {
		a := &arrival{g: g, point: point, kv: kv, resume: make(chan struct{}), gate: true}
		s.arrivals <- a
		<-a.resume
		return
	}
	if !gate && (point == "mon.exited" || point == "cb.exited") && s.gated.Load() {
		// the goroutine ends right after this note
		s.arrivals <- &arrival{g: g, point: point, final: true}
		return
	}
	s.record(g, point, kv, gate)
	if gate && s.jitter > 0 {
		// free mode: perturb the schedule a little
		x := atomic.AddUint64(&s.rnd, 0x9E3779B97F4A7C15)
		x ^= x >> 29
		switch x % uint64(s.jitter) {
		case 0:
			runtime.Gosched()
		case 1:
			time.Sleep(time.Duration(x%50) * time.Microsecond)
		}
	}
}

// Final tells the scheduler that goroutine g has finished.
func (s *Sched) Final(g, point string) {
	if s.gated.Load() {
		s.arrivals <- &arrival{g: g, point: point, final: true}
		return
	}
	s.record(g, point, nil, false)
}

func kvMap(kv []any) map[string]any {
	m := map[string]any{}
	for i := 0; i+1 < len(kv); i += 2 {
		m[fmt.Sprint(kv[i])] = kv[i+1]
	}
	return m
}

func (s *Sched) record(g, point string, kv []any, gate bool) {
	s.mu.Lock()
	defer s.mu.Unlock()
	s.recordLocked(g, point, kv, gate)
}

func (s *Sched) recordLocked(g, point string, kv []any, gate bool) {
	var m map[string]any
	if s.rewrite != nil {
		m = s.rewrite(g, point, kv)
	} else {
		m = kvMap(kv)
	}
	if m == nil {
		return
	}
	if s.onEvent != nil {
		s.onEvent(g, point, m, gate)
	}
	s.seq++
	e := Ev{"seq": s.seq, "step": s.step, "sc": s.sc, "g": g, "ev": point}
	for k, v := range m {
		e[k] = v
	}
	b, err := json.Marshal(e)
	if err != nil {
		b, _ = json.Marshal(Ev{"seq": s.seq, "sc": s.sc, "g": g, "ev": point, "marshal_error": err.Error()})
	}
	s.out.Write(b)
	s.out.WriteByte('\n')
}

// Note records a harness-side event.
func (s *Sched) Note(g, point string, kv ...any) { s.record(g, point, kv, false) }

func (s *Sched) anomaly(kind, detail string) {
	s.mu.Lock()
	s.anomalies = append(s.anomalies, kind)
	s.recordLocked("sched", "anomaly", []any{"kind", kind, "detail", detail}, false)
	s.mu.Unlock()
}

var errWatchdog = fmt.Errorf("watchdog")

// settle waits until every released goroutine is parked again or has finished.
func (s *Sched) settle(watchdog time.Duration) error {
	for s.running > 0 {
		select {
		case a := <-s.arrivals:
			if a.final {
				s.running--
				s.done[a.g] = true
				s.record(a.g, a.point, nil, false)
				continue
			}
			if prev, dup := s.parked[a.g]; dup {
				// two goroutines claim the same identity (e.g. callbacks run concurrently)
				s.anomaly("concurrent", fmt.Sprintf("%s at %s while parked at %s", a.g, a.point, prev.point))
				close(a.resume)
				continue
			}
			s.running--
			s.record(a.g, a.point, a.kv, true)
			s.parked[a.g] = a
		case <-time.After(watchdog):
			return errWatchdog
		}
	}
	s.out.Flush()
	return nil
}

func (s *Sched) At(g string) string {
	if a, ok := s.parked[g]; ok {
		return a.point
	}
	return ""
}

func (s *Sched) kvAt(g string) map[string]any {
	if a, ok := s.parked[g]; ok {
		return kvMap(a.kv)
	}
	return nil
}

// Step releases the named parked goroutines together and waits for quiescence.
func (s *Sched) Step(watchdog time.Duration, gs ...string) error {
	s.mu.Lock()
	s.step++
	s.mu.Unlock()
	for _, g := range gs {
		a, ok := s.parked[g]
		if !ok {
			return fmt.Errorf("step: %s not parked", g)
		}
		delete(s.parked, g)
		s.running++
		close(a.resume)
	}
	return s.settle(watchdog)
}

// ungate switches to pass-through mode and releases everything that is parked.
func (s *Sched) ungate() {
	s.gated.Store(false)
	for g, a := range s.parked {
		delete(s.parked, g)
		close(a.resume)
	}
	// drain late arrivals that raced with the switch
	go func() {
		for {
			select {
			case a := <-s.arrivals:
				if a.resume != nil {
					close(a.resume)
				}
			case <-time.After(3 * time.Second):
				return
			}
		}
	}()
}

func (s *Sched) where() string {
	var b []string
	for g, a := range s.parked {
		b = append(b, g+"@"+a.point)
	}
	return strings.Join(b, " ")
}

// dialsGoroutines returns the stacks of goroutines that are inside the library.
func dialsGoroutines() []string {
	buf := make([]byte, 1<<20)
	n := runtime.Stack(buf, true)
	var out []string
	for _, g := range strings.Split(string(buf[:n]), "\n\n") {
		if !strings.Contains(g, "github.com/vimeo/dials") {
			continue
		}
		if strings.Contains(g, "main.dialsGoroutines") {
			continue
		}
		// only goroutines *created by* or *running in* library code: monitor, runCBs, watchLoop, ...
		if strings.Contains(g, ".monitor(") || strings.Contains(g, ".runCBs(") || strings.Contains(g, ".watchLoop(") ||
			strings.Contains(g, "created by github.com/vimeo/dials") {
			out = append(out, g)
		}
	}
	return out
}

func waitNoDialsGoroutines(max time.Duration) []string {
	deadline := time.Now().Add(max)
	for {
		l := dialsGoroutines()
		if len(l) == 0 || time.Now().After(deadline) {
			return l
		}
		time.Sleep(2 * time.Millisecond)
	}
}

func unsafePtr[T any](p *T) unsafe.Pointer { return unsafe.Pointer(p) }

func fatalf(format string, a ...any) {
	fmt.Fprintf(os.Stderr, format+"\n", a...)
	os.Exit(2)
}
