package main

// Parse driver (C15): concretises the cases emitted by TLC from spec/Parse.tla
// (symbolic range literals via math/big, character classes via seeded members)
// and checks the range rule and the round trip parse(canonical(v)) = v on the
// real parsers and flag helpers.

import (
	"bufio"
	"encoding/json"
	"fmt"
	"math"
	"math/big"
	"os"
	"reflect"
	"strconv"
	"strings"
	"time"

	"github.com/vimeo/dials/parse"
	"github.com/vimeo/dials/sources/flag/flaghelper"
)

type pCase struct {
	ID     string   `json:"id"`
	Fam    string   `json:"fam"`
	Kind   string   `json:"kind"`
	B      string   `json:"b"`
	Off    int      `json:"off"`
	Fmt    string   `json:"fmt"`
	Ctx    string   `json:"ctx"`
	Accept bool     `json:"accept"`
	Coll   string   `json:"coll"`
	Elems  []string `json:"elems"`
	Which  string   `json:"which"`
	Seed   int      `json:"seed"`
}

var pTypes = map[string]reflect.Type{
	"int": reflect.TypeOf(int(0)), "int8": reflect.TypeOf(int8(0)), "int16": reflect.TypeOf(int16(0)), "int32": reflect.TypeOf(int32(0)),
	"int64": reflect.TypeOf(int64(0)), "uint": reflect.TypeOf(uint(0)), "uint8": reflect.TypeOf(uint8(0)), "uint16": reflect.TypeOf(uint16(0)),
	"uint32": reflect.TypeOf(uint32(0)), "uint64": reflect.TypeOf(uint64(0)), "float32": reflect.TypeOf(float32(0)), "float64": reflect.TypeOf(float64(0)),
	"bool": reflect.TypeOf(false), "string": reflect.TypeOf(""), "duration": reflect.TypeOf(time.Duration(0)),
	"complex64": reflect.TypeOf(complex64(0)), "complex128": reflect.TypeOf(complex128(0)),
}

func intBounds(kind string) (min, max *big.Int) {
	bits := map[string]int{"int": 64, "int8": 8, "int16": 16, "int32": 32, "int64": 64, "uint": 64, "uint8": 8, "uint16": 16, "uint32": 32, "uint64": 64}[kind]
	one := big.NewInt(1)
	if strings.HasPrefix(kind, "u") {
		return big.NewInt(0), new(big.Int).Sub(new(big.Int).Lsh(one, uint(bits)), one)
	}
	h := new(big.Int).Lsh(one, uint(bits-1))
	return new(big.Int).Neg(h), new(big.Int).Sub(h, one)
}

func fmtInt(v *big.Int, f string) string {
	neg := v.Sign() < 0
	a := new(big.Int).Abs(v)
	var s string
	switch f {
	case "hex":
		s = "0x" + a.Text(16)
	case "oct":
		s = "0o" + a.Text(8)
	case "bin":
		s = "0b" + a.Text(2)
	case "sep":
		d := a.Text(10)
		if len(d) > 3 {
			d = d[:len(d)-3] + "_" + d[len(d)-3:]
		}
		s = d
	case "fdot": // an integer written in float notation (text that is not an integer literal may be rejected, but never wrapped)
		s = a.Text(10) + ".0"
	case "fexp":
		d := a.Text(10)
		s = d[:1] + "." + d[1:] + "e" + fmt.Sprint(len(d)-1)
		if len(d) == 1 {
			s = d + "e0"
		}
	default:
		s = a.Text(10)
	}
	if neg {
		s = "-" + s
	}
	if f == "ws" {
		s = "  " + s + " \t"
	}
	return s
}

func rangeLiteral(c pCase) (string, bool) {
	if strings.HasPrefix(c.Kind, "complex") {
		// the range rule applies to each component
		fk := "float32"
		if c.Kind == "complex128" {
			fk = "float64"
		}
		part, ok := rangeLiteral(pCase{Kind: fk, B: c.B, Off: c.Off})
		if !ok {
			return "", false
		}
		if c.Fmt == "hex" { // used as "the imaginary part carries the literal"
			if strings.HasPrefix(part, "-") {
				return "(1" + part + "i)", true
			}
			return "(1+" + part + "i)", true
		}
		return part, true
	}
	if strings.HasPrefix(c.Kind, "float") {
		max := "3.4028234663852886e+38"
		out := "3.5e+38"
		if c.Kind == "float64" {
			max, out = "1.7976931348623157e+308", "1.8e+308"
		}
		switch {
		case c.B == "max" && c.Off == 0:
			return max, true
		case c.B == "max" && c.Off == 1:
			return out, true
		case c.B == "max" && c.Off == -1:
			return "1e+30", true
		case c.B == "min" && c.Off == 0:
			return "-" + max, true
		case c.B == "min" && c.Off == -1:
			return "-" + out, true
		case c.B == "min" && c.Off == 1:
			return "-1e+30", true
		case c.Off == 0:
			return "0", true
		case c.Off == 1:
			return "5e-324", c.Kind == "float64"
		default:
			return "-1.5", true
		}
	}
	min, max := intBounds(c.Kind)
	var base *big.Int
	switch c.B {
	case "min":
		base = min
	case "max":
		base = max
	default:
		base = big.NewInt(0)
	}
	v := new(big.Int).Add(base, big.NewInt(int64(c.Off)))
	return fmtInt(v, c.Fmt), true
}

// rangeValue: the integer a range case denotes
func rangeValue(c pCase) *big.Int {
	min, max := intBounds(c.Kind)
	base := big.NewInt(0)
	switch c.B {
	case "min":
		base = min
	case "max":
		base = max
	}
	return new(big.Int).Add(base, big.NewInt(int64(c.Off)))
}

func pMis(kind, d string) map[string]any { return map[string]any{"kind": kind, "detail": d} }

func sliceParse(kind, s string) (interface{}, error) {
	switch kind {
	case "int":
		return parse.SignedIntegralSlice[int](s)
	case "int8":
		return parse.SignedIntegralSlice[int8](s)
	case "int16":
		return parse.SignedIntegralSlice[int16](s)
	case "int32":
		return parse.SignedIntegralSlice[int32](s)
	case "int64":
		return parse.SignedIntegralSlice[int64](s)
	case "uint":
		return parse.UnsignedIntegralSlice[uint](s)
	case "uint8":
		return parse.UnsignedIntegralSlice[uint8](s)
	case "uint16":
		return parse.UnsignedIntegralSlice[uint16](s)
	case "uint32":
		return parse.UnsignedIntegralSlice[uint32](s)
	case "uint64":
		return parse.UnsignedIntegralSlice[uint64](s)
	}
	return nil, fmt.Errorf("harness: no slice parser for %s", kind)
}

func runRange(c pCase) (mis []map[string]any) {
	lit, ok := rangeLiteral(c)
	if !ok {
		return nil
	}
	var err error
	var got interface{}
	if c.Ctx == "slice" {
		got, err = sliceParse(c.Kind, "7,"+lit)
	} else {
		var v reflect.Value
		v, err = parse.String(lit, pTypes[c.Kind])
		if err == nil {
			got = v.Elem().Interface()
		}
	}
	floatNotation := c.Fmt == "fdot" || c.Fmt == "fexp"
	if floatNotation && c.Accept && err != nil {
		return nil // not an integer literal: rejecting it is fine
	}
	if c.Accept && err != nil {
		return append(mis, pMis("prop", fmt.Sprintf("%s literal %q (%s) is inside the range of %s but was rejected: %v", c.Ctx, lit, c.Fmt, c.Kind, err)))
	}
	if !c.Accept && err == nil {
		return append(mis, pMis("prop", fmt.Sprintf("%s literal %q (%s) is outside the range of %s but was accepted as %v (wrapped / truncated / saturated)", c.Ctx, lit, c.Fmt, c.Kind, got)))
	}
	if c.Accept && !strings.HasPrefix(c.Kind, "float") && !strings.HasPrefix(c.Kind, "complex") {
		// the value itself
		want, _ := new(big.Int).SetString(strings.ReplaceAll(strings.TrimSpace(lit), "_", ""), 0)
		if floatNotation {
			want, _ = new(big.Int).SetString(strings.TrimSpace(fmtInt(rangeValue(c), "dec")), 10)
		}
		gv := reflect.ValueOf(got)
		if gv.Kind() == reflect.Slice {
			gv = gv.Index(gv.Len() - 1)
		}
		var have *big.Int
		if gv.CanInt() {
			have = big.NewInt(gv.Int())
		} else {
			have = new(big.Int).SetUint64(gv.Uint())
		}
		if want != nil && have.Cmp(want) != 0 {
			mis = append(mis, pMis("prop", fmt.Sprintf("%s literal %q parsed as %v for %s", c.Ctx, lit, have, c.Kind)))
		}
	}
	return mis
}

var classMembers = map[string][]string{
	"plain":     {"abc", "x1", "Hello", "a.b/c", "10%"},
	"comma":     {"a,b", ",", "x,,y", "1,2,3"},
	"colon":     {"k:v", ":", "a::b", "http://h:80/p"},
	"quote":     {`say "hi"`, `"`, `'single'`, `a"b'c`},
	"backslash": {`a\b`, `\`, `\\n`, `C:\dir\`},
	"space":     {" a b ", " ", "two  spaces", "\ttabbed"},
	"ctrl":      {"a\nb", "\x00", "bell\a", "cr\r\n"},
	"nonascii":  {"héllo", "日本語", "→", "\u00a0nbsp", "e\u0301"},
	"empty":     {""},
	"backquote": {"`x`", "`", "a`b", "`lead", "trail`"},
}

func member(class string, pos, seed int) string {
	ms := classMembers[class]
	return ms[(pos*7+seed)%len(ms)]
}

func runTrip(c pCase) (mis []map[string]any) {
	vals := make([]string, len(c.Elems))
	seen := map[string]bool{}
	for i, cl := range c.Elems {
		v := member(cl, i, c.Seed)
		for k := 0; seen[v] && k < 8; k++ {
			v = member(cl, i+k+1, c.Seed+k+1) // sets and map keys need distinct members
		}
		if seen[v] {
			v = v + fmt.Sprint(i)
		}
		seen[v] = true
		vals[i] = v
	}
	switch c.Coll {
	case "slice":
		in := append([]string{}, vals...)
		text := flaghelper.NewStringSliceFlag(&in).String()
		got, err := parse.StringSlice(text)
		if err != nil {
			return append(mis, pMis("prop", fmt.Sprintf("[]string %q: canonical form %q does not parse: %v", vals, text, err)))
		}
		if len(got) != len(vals) || (len(vals) > 0 && !reflect.DeepEqual(got, vals)) {
			mis = append(mis, pMis("prop", fmt.Sprintf("[]string %q: canonical form %q parses as %q", vals, text, got)))
		}
		v2, err2 := parse.String(text, reflect.TypeOf([]string{}))
		if err2 == nil && len(vals) > 0 && !reflect.DeepEqual(v2.Interface(), vals) {
			mis = append(mis, pMis("prop", fmt.Sprintf("[]string %q: parse.String(%q) = %q", vals, text, v2.Interface())))
		}
	case "set":
		in := map[string]struct{}{}
		for _, v := range vals {
			in[v] = struct{}{}
		}
		text := flaghelper.NewStringSetFlag(&in).String()
		got, err := parse.StringSet(text)
		if err != nil {
			return append(mis, pMis("prop", fmt.Sprintf("set %q: canonical form %q does not parse: %v", vals, text, err)))
		}
		if len(got) != len(in) || (len(in) > 0 && !reflect.DeepEqual(got, in)) {
			mis = append(mis, pMis("prop", fmt.Sprintf("set %q: canonical form %q parses as %v", vals, text, got)))
		}
	case "map":
		in := map[string]string{}
		for i, v := range vals {
			in[v] = member(c.Elems[(i+1)%len(c.Elems)], i+3, c.Seed+1)
		}
		text := flaghelper.NewMapStringStringFlag(&in).String()
		gotv, err := parse.Map(text, reflect.TypeOf(map[string]string{}))
		if err != nil {
			return append(mis, pMis("prop", fmt.Sprintf("map %q: canonical form %q does not parse: %v", in, text, err)))
		}
		got, _ := gotv.Interface().(map[string]string)
		if len(got) != len(in) || (len(in) > 0 && !reflect.DeepEqual(got, in)) {
			mis = append(mis, pMis("prop", fmt.Sprintf("map %q: canonical form %q parses as %q", in, text, got)))
		}
	case "mapslice":
		in := map[string][]string{}
		for i, v := range vals {
			in[v] = []string{member(c.Elems[(i+1)%len(c.Elems)], i+3, c.Seed+1), member(c.Elems[i], i+5, c.Seed+2)}
		}
		text := flaghelper.NewMapStringStringSliceFlag(&in).String()
		got, err := parse.StringStringSliceMap(text)
		if err != nil {
			return append(mis, pMis("prop", fmt.Sprintf("map[string][]string %q: canonical form %q does not parse: %v", in, text, err)))
		}
		if len(got) != len(in) || (len(in) > 0 && !reflect.DeepEqual(got, in)) {
			mis = append(mis, pMis("prop", fmt.Sprintf("map[string][]string %q: canonical form %q parses as %q", in, text, got)))
		}
	}
	return mis
}

func scalarValue(kind, which string) (interface{}, bool) {
	t := pTypes[kind]
	switch {
	case t.Kind() >= reflect.Int && t.Kind() <= reflect.Int64 && kind != "duration":
		min, max := intBounds(kind)
		v := reflect.New(t).Elem()
		switch which {
		case "min":
			v.SetInt(min.Int64())
		case "max":
			v.SetInt(max.Int64())
		case "one":
			v.SetInt(1)
		case "minusone":
			v.SetInt(-1)
		case "zero":
		default:
			return nil, false
		}
		return v.Interface(), true
	case t.Kind() >= reflect.Uint && t.Kind() <= reflect.Uint64:
		_, max := intBounds(kind)
		v := reflect.New(t).Elem()
		switch which {
		case "max":
			v.SetUint(max.Uint64())
		case "one":
			v.SetUint(1)
		case "zero", "min":
		default:
			return nil, false
		}
		return v.Interface(), true
	case kind == "float32":
		return map[string]interface{}{"min": float32(-math.MaxFloat32), "max": float32(math.MaxFloat32), "zero": float32(0), "one": float32(1),
			"minusone": float32(-1.5), "tiny": float32(math.SmallestNonzeroFloat32), "inf": float32(math.Inf(1))}[which], true
	case kind == "float64":
		return map[string]interface{}{"min": -math.MaxFloat64, "max": math.MaxFloat64, "zero": float64(0), "one": float64(1),
			"minusone": float64(-1.5), "tiny": math.SmallestNonzeroFloat64, "inf": math.Inf(-1)}[which], true
	case kind == "bool":
		return which == "one" || which == "max", which == "one" || which == "zero" || which == "max" || which == "min"
	case kind == "string":
		return map[string]interface{}{"min": "", "max": "a,b:\"c\"\\`", "zero": " ", "one": "héllo\n", "minusone": "-", "tiny": "\x00", "inf": "∞"}[which], true
	case kind == "duration":
		return map[string]interface{}{"min": time.Duration(math.MinInt64), "max": time.Duration(math.MaxInt64), "zero": time.Duration(0),
			"one": time.Nanosecond, "minusone": -90 * time.Minute, "tiny": 1500 * time.Microsecond, "inf": 36 * time.Hour}[which], true
	case kind == "complex64":
		return map[string]interface{}{"min": complex64(complex(-math.MaxFloat32, math.MaxFloat32)), "max": complex64(complex(math.MaxFloat32, -1)), "zero": complex64(0),
			"one": complex64(complex(1, 2)), "minusone": complex64(complex(-1.5, -2.5)), "tiny": complex64(complex(math.SmallestNonzeroFloat32, 0)), "inf": complex64(complex(0, 1))}[which], true
	case kind == "complex128":
		return map[string]interface{}{"min": complex(-math.MaxFloat64, math.MaxFloat64), "max": complex(math.MaxFloat64, -1), "zero": complex128(0),
			"one": complex(1, 2), "minusone": complex(-1.5, -2.5), "tiny": complex(math.SmallestNonzeroFloat64, 0), "inf": complex(0, 1)}[which], true
	}
	return nil, false
}

func canonical(v interface{}) string {
	switch x := v.(type) {
	case string:
		return x
	case bool:
		return strconv.FormatBool(x)
	case float32:
		return strconv.FormatFloat(float64(x), 'g', -1, 32)
	case float64:
		return strconv.FormatFloat(x, 'g', -1, 64)
	case complex64:
		return strconv.FormatComplex(complex128(x), 'g', -1, 64)
	case complex128:
		return strconv.FormatComplex(x, 'g', -1, 128)
	case time.Duration:
		return x.String()
	}
	return fmt.Sprint(v)
}

func runScalar(c pCase) (mis []map[string]any) {
	v, ok := scalarValue(c.Kind, c.Which)
	if !ok || v == nil {
		return nil
	}
	text := canonical(v)
	got, err := parse.String(text, pTypes[c.Kind])
	if err != nil {
		return append(mis, pMis("prop", fmt.Sprintf("%s %v: canonical form %q does not parse: %v", c.Kind, v, text, err)))
	}
	g := got.Elem().Interface()
	if !reflect.DeepEqual(g, v) {
		mis = append(mis, pMis("prop", fmt.Sprintf("%s %v: canonical form %q parses as %v", c.Kind, v, text, g)))
	}
	return mis
}

func runParseCase(c pCase) (mis []map[string]any) {
	defer func() {
		if r := recover(); r != nil {
			mis = append(mis, pMis("prop", fmt.Sprint("panic: ", r)))
		}
	}()
	switch c.Fam {
	case "range":
		return runRange(c)
	case "trip":
		return runTrip(c)
	case "scalar":
		return runScalar(c)
	case "inttrip":
		return runIntTrip(c)
	}
	return nil
}

func sTrip[I flaghelper.SignedInt](vals []*big.Int) (string, string, string, error) {
	in := make([]I, len(vals))
	for i, v := range vals {
		in[i] = I(v.Int64())
	}
	text := flaghelper.NewSignedIntegralSlice(&in).String()
	got, err := parse.SignedIntegralSlice[I](text)
	return text, fmt.Sprint(in), fmt.Sprint(got), err
}

func uTrip[I flaghelper.UnsignedInt](vals []*big.Int) (string, string, string, error) {
	in := make([]I, len(vals))
	for i, v := range vals {
		in[i] = I(v.Uint64())
	}
	text := flaghelper.NewUnsignedIntegralSlice(&in).String()
	got, err := parse.UnsignedIntegralSlice[I](text)
	return text, fmt.Sprint(in), fmt.Sprint(got), err
}

// runIntTrip: the canonical text of an integer slice made of its element type's extremes parses back to that slice
func runIntTrip(c pCase) (mis []map[string]any) {
	min, max := intBounds(c.Kind)
	var vals []*big.Int
	for _, e := range c.Elems {
		switch e {
		case "min":
			vals = append(vals, min)
		case "max":
			vals = append(vals, max)
		case "zero":
			vals = append(vals, big.NewInt(0))
		case "one":
			vals = append(vals, big.NewInt(1))
		case "minusone":
			if strings.HasPrefix(c.Kind, "u") {
				vals = append(vals, new(big.Int).Sub(max, big.NewInt(1)))
			} else {
				vals = append(vals, big.NewInt(-1))
			}
		}
	}
	var text, want, got string
	var err error
	switch c.Kind {
	case "int":
		text, want, got, err = sTrip[int](vals)
	case "int8":
		text, want, got, err = sTrip[int8](vals)
	case "int16":
		text, want, got, err = sTrip[int16](vals)
	case "int32":
		text, want, got, err = sTrip[int32](vals)
	case "int64":
		text, want, got, err = sTrip[int64](vals)
	case "uint":
		text, want, got, err = uTrip[uint](vals)
	case "uint8":
		text, want, got, err = uTrip[uint8](vals)
	case "uint16":
		text, want, got, err = uTrip[uint16](vals)
	case "uint32":
		text, want, got, err = uTrip[uint32](vals)
	case "uint64":
		text, want, got, err = uTrip[uint64](vals)
	default:
		return nil
	}
	if err != nil {
		return append(mis, pMis("prop", fmt.Sprintf("[]%s %s: canonical form %q does not parse: %v", c.Kind, want, text, err)))
	}
	if got != want {
		mis = append(mis, pMis("prop", fmt.Sprintf("[]%s %s: canonical form %q parses as %s", c.Kind, want, text, got)))
	}
	return mis
}

func parseMain(args []string) {
	if len(args) < 2 {
		fatalf("usage: vh parse <cases.ndjson> <results.ndjson>")
	}
	in, err := os.Open(args[0])
	if err != nil {
		fatalf("%v", err)
	}
	outf, err := os.Create(args[1])
	if err != nil {
		fatalf("%v", err)
	}
	out := bufio.NewWriterSize(outf, 1<<16)
	scn := bufio.NewScanner(in)
	scn.Buffer(make([]byte, 1<<20), 1<<24)
	n := 0
	for scn.Scan() {
		line := strings.TrimSpace(scn.Text())
		if line == "" {
			continue
		}
		var c pCase
		if err := json.Unmarshal([]byte(line), &c); err != nil {
			fatalf("bad case: %v", err)
		}
		if mis := runParseCase(c); len(mis) > 0 {
			b, _ := json.Marshal(map[string]any{"id": c.ID, "mismatches": mis})
			out.Write(b)
			out.WriteByte('\n')
		}
		n++
	}
	b, _ := json.Marshal(map[string]any{"final": true, "cases": n})
	out.Write(b)
	out.WriteByte('\n')
	out.Flush()
	outf.Close()
}
