module verif/harness

go 1.18

require (
	github.com/vimeo/dials v0.0.0
)

replace github.com/vimeo/dials => /repo
