------------------------------- MODULE Dials -------------------------------
(***************************************************************************)
(* The concurrent kernel of vimeo/dials: the monitor goroutine             *)
(* (dials.go monitor/updateSourceValue), the callback goroutine            *)
(* (cb_mgr.go runCBs), watcher goroutines reporting through WatchArgs, and *)
(* API clients (ViewVersion, RegisterCallback, unregister,                 *)
(* EnableVerification), all selectable against contexts.                   *)
(*                                                                         *)
(* The grain is the implementation's: every action is the code between two *)
(* schedule points (verifPoint gates, build tag verif), so a behaviour of  *)
(* this specification is a schedule the gate scheduler can replay, and a   *)
(* recorded gated execution is a behaviour of this specification           *)
(* (DialsTrace.tla).  mon.pc / cb.pc / rep[s].pc / cli[c].pc name the gate *)
(* at which the goroutine is parked.                                       *)
(*                                                                         *)
(* Values: a config has two leaves x, y (KernelData.tla); source s holds   *)
(* srcVal[s]; the stacked config is Stack(Def, srcVal).                    *)
(***************************************************************************)
EXTENDS Naturals, Integers, Sequences, FiniteSets, TLC, KernelData

CONSTANTS
  NSrc,         \* watching sources 1..NSrc, one reporter goroutine each
  Vals,         \* values a source may report: records [x, y, u]
  InitVal,      \* [1..NSrc -> value] : what Value() returned inside Config
  Def,          \* [x, y] caller's defaults
  Clients,      \* API client goroutines (a set of naturals)
  CbCap,        \* capacity of the callback event queue (64 in the code)
  MaxSerial,    \* bound on installs
  MaxRepOps,    \* operations per reporter
  MaxCliOps,    \* operations per client
  RepOps,       \* subset of {"val", "block", "err", "done"}
  CliOps,       \* subset of {"view", "reg", "unreg", "enable"}
  AllowRepCancel, AllowCliCancel, AllowCancel,
  BlockingCbs,  \* TRUE: a registered callback may be one that never returns
  Skip, Delay, Suppress, OnNew, OnErr,      \* dials.Params
  \* behaviours of the code before the repairs (fix: commits) and seeded mistakes
  BUG_CloseCbq, BUG_UnregCap, BUG_SrcErrSuppress, BUG_StoreBeforeVerify,
  BUG_FilterGT, BUG_CatchupLE, BUG_ReplyBeforeStore, BUG_SerialPlus2, BUG_NoSlotUpdate

Srcs == 1..NSrc
NoVal == [x |-> 0, y |-> 0, u |-> FALSE]
NoAct == [a |-> "Init", g |-> "", i |-> 0, op |-> "", x |-> 0, y |-> 0, u |-> FALSE, h |-> 0]
Act(a, g, i, op, v, h) == [a |-> a, g |-> g, i |-> i, op |-> op, x |-> v.x, y |-> v.y, u |-> v.u, h |-> h]

VARIABLES
  ver,          \* [serial, x, y] : the atomically published pair
  srcVal, watching, skipVerify,
  mon,          \* [pc, kind, src, val, blocking, n, ok, why, cli]
  cbq, monDone, monCtl, events,
  replies,      \* set of [src, n, res] : per-call reply channels (capacity 1) that were answered
  resps,        \* set of [c, n, ok, serial, x, y] : answered EnableVerification requests
  unregDone,    \* set of [c, n] : closed done channels
  cb,           \* [pc, ev, idx, cur, lastSerial, handles]
  rep,          \* [Srcs -> [pc, op, val, n, cancelled]]
  cli,          \* [Clients -> [pc, op, tok, tokValid, h, n, cancelled, regs]]
  ctxDone,
  \* ----- observation (history) variables: what a program can see -----
  installs,     \* sequence of [x, y, src, n] ; installs[k] has serial k
  verifiedFrom, \* -1 while no verification is in force, else first serial that must be valid
  delivered,    \* [handle -> sequence of [old, new, cu]]
  minSerial,    \* [handle -> serial it registered with]
  regSeen,      \* handles whose registration was processed
  unregTrue,    \* handles whose unregister function returned true
  afterUnreg,   \* handles invoked after that
  missedCatchup,\* handles that should have got a catch-up call and did not (or vice versa)
  dropped,      \* a new-config event was dropped (queue overflow / shutdown)
  errLog,       \* OnWatchedError calls: [err, old, newx, newy, hasNew]
  gcbLog,       \* OnNewConfig calls: [old, new]
  withheld,     \* global callbacks withheld: [kind, delayed]  (delayed = delay was in force /\ Suppress)
  verifyLog,    \* Verify calls: [x, y, who]
  enableCalled,
  blockRet,     \* [Srcs -> [res, at, stored]] : last blocking report's result, serial seen, serial stored
  reported,     \* [Srcs -> value] : each source's most recently reported value (as the monitor received it)
  lateOK,       \* an API call issued after shutdown reported success
  crashed,
  lastAct       \* the action that produced this state (behaviour export and trace binding)

obsVars == <<installs, verifiedFrom, delivered, minSerial, regSeen, unregTrue, afterUnreg, missedCatchup, dropped,
             errLog, gcbLog, withheld, verifyLog, enableCalled, blockRet, lateOK, crashed, reported>>
sysVars == <<ver, srcVal, watching, skipVerify, mon, cbq, monDone, monCtl, events, replies, resps, unregDone, cb, rep, cli, ctxDone>>
vars == <<sysVars, obsVars, lastAct>>

Handles == {10 * c + n : c \in Clients, n \in 1..MaxCliOps}

initCfg == Stack(Def, InitVal)
Valid(c) == ValidXY(c.x, c.y)
CfgOf(k) == IF k = 0 THEN initCfg ELSE [x |-> installs[k].x, y |-> installs[k].y]

NoMon == [pc |-> "select", kind |-> "", src |-> 0, val |-> NoVal, blocking |-> FALSE, n |-> 0, ok |-> TRUE, why |-> "", cli |-> [c |-> 0, n |-> 0]]
NoEv == [k |-> "", old |-> 0, new |-> 0, sup |-> FALSE, err |-> "", newx |-> 0, newy |-> 0, hasNew |-> FALSE,
         h |-> 0, tok |-> 0, tokValid |-> FALSE, c |-> 0, n |-> 0, blk |-> FALSE]

Init ==
  /\ ver = [serial |-> 0, x |-> initCfg.x, y |-> initCfg.y]
  /\ srcVal = InitVal
  /\ watching = [s \in Srcs |-> TRUE]
  /\ skipVerify = Delay
  /\ mon = NoMon
  /\ cbq = <<>> /\ monDone = FALSE /\ monCtl = <<>> /\ events = <<>>
  /\ replies = {} /\ resps = {} /\ unregDone = {}
  /\ cb = [pc |-> "idle", ev |-> NoEv, idx |-> 0, cur |-> 0, lastSerial |-> 0, handles |-> <<>>, blk |-> {}]
  /\ rep = [s \in Srcs |-> [pc |-> "idle", op |-> "", val |-> NoVal, n |-> 0, cancelled |-> FALSE]]
  /\ cli = [c \in Clients |-> [pc |-> "idle", op |-> "", tok |-> 0, tokValid |-> FALSE, h |-> 0, n |-> 0,
                               cancelled |-> FALSE, regs |-> {}, late |-> FALSE, blk |-> FALSE, useTok |-> FALSE]]
  /\ ctxDone = FALSE
  /\ installs = <<>>
  /\ verifiedFrom = IF Delay THEN -1 ELSE IF Skip THEN 1 ELSE 0
  /\ delivered = [h \in Handles |-> <<>>]
  /\ minSerial = [h \in Handles |-> 0]
  /\ regSeen = {} /\ unregTrue = {} /\ afterUnreg = {} /\ missedCatchup = {}
  /\ dropped = FALSE
  /\ errLog = <<>> /\ gcbLog = <<>> /\ withheld = <<>>
  /\ verifyLog = IF Skip \/ Delay THEN <<>> ELSE <<[x |-> initCfg.x, y |-> initCfg.y, who |-> "config"]>>
  /\ enableCalled = FALSE
  /\ blockRet = [s \in Srcs |-> [res |-> "none", at |-> 0, stored |-> 0]]
  /\ lateOK = FALSE
  /\ crashed = FALSE
  /\ reported = InitVal
  /\ lastAct = NoAct
  \* Config itself fails when the initial stack does not verify: such constants have no behaviours
  /\ StackableAll(InitVal)
  /\ (Skip \/ Delay \/ Valid(initCfg))

-----------------------------------------------------------------------------
(* submitEvent: select { ctx.Done | cbq <- ev | default } -- never blocks.   *)
(* Returns the new queue and whether the event was lost.                     *)
SubmitOutcomes(ev) ==
  (IF Len(cbq) < CbCap THEN {[q |-> Append(cbq, ev), lost |-> FALSE]} ELSE {[q |-> cbq, lost |-> TRUE]})
  \cup (IF ctxDone THEN {[q |-> cbq, lost |-> TRUE]} ELSE {})

(* ----------------------------- reporters -------------------------------- *)
RepStart(s, op, v) ==
  /\ rep[s].pc = "idle" /\ rep[s].n < MaxRepOps /\ op \in RepOps
  /\ rep' = [rep EXCEPT ![s] = [pc |-> "send", op |-> op, val |-> v, n |-> @.n + 1, cancelled |-> FALSE]]
  /\ lastAct' = Act("RepStart", "r", s, op, v, 0)
  /\ UNCHANGED <<ver, srcVal, watching, skipVerify, mon, cbq, monDone, monCtl, events, replies, resps, unregDone, cb, cli, ctxDone, obsVars>>

RepCancel(s) ==
  /\ AllowRepCancel /\ rep[s].pc \in {"send", "await"} /\ ~rep[s].cancelled
  /\ rep' = [rep EXCEPT ![s].cancelled = TRUE]
  /\ lastAct' = Act("RepCancel", "r", s, "", NoVal, 0)
  /\ UNCHANGED <<ver, srcVal, watching, skipVerify, mon, cbq, monDone, monCtl, events, replies, resps, unregDone, cb, cli, ctxDone, obsVars>>

RepGiveUp(s) ==      \* the select took ctx.Done
  /\ rep[s].pc \in {"send", "await"} /\ rep[s].cancelled
  /\ rep' = [rep EXCEPT ![s].pc = "idle"]
  /\ blockRet' = IF rep[s].op = "block" THEN [blockRet EXCEPT ![s] = [res |-> "ctx", at |-> ver.serial, stored |-> 0]] ELSE blockRet
  /\ lastAct' = Act("RepGiveUp", "r", s, rep[s].op, NoVal, 0)
  /\ UNCHANGED <<ver, srcVal, watching, skipVerify, mon, cbq, monDone, monCtl, events, replies, resps, unregDone, cb, cli, ctxDone,
                 installs, verifiedFrom, delivered, minSerial, regSeen, unregTrue, afterUnreg, missedCatchup, dropped, errLog, gcbLog,
                 withheld, verifyLog, enableCalled, lateOK, crashed, reported>>

StoredSerialOf(s, n) ==
  LET S == {k \in 1..Len(installs) : installs[k].src = s /\ installs[k].n = n} IN IF S = {} THEN 0 ELSE MaxOf(S)

RepGotReply(s) ==
  /\ rep[s].pc = "await"
  /\ \E m \in replies : m.src = s /\ m.n = rep[s].n /\
       /\ rep' = [rep EXCEPT ![s].pc = "idle"]
       /\ replies' = replies \ {m}
       /\ blockRet' = [blockRet EXCEPT ![s] = [res |-> m.res, at |-> ver.serial, stored |-> StoredSerialOf(s, rep[s].n)]]
       /\ lastAct' = Act("RepGotReply", "r", s, m.res, NoVal, 0)
  /\ UNCHANGED <<ver, srcVal, watching, skipVerify, mon, cbq, monDone, monCtl, events, resps, unregDone, cb, cli, ctxDone,
                 installs, verifiedFrom, delivered, minSerial, regSeen, unregTrue, afterUnreg, missedCatchup, dropped, errLog, gcbLog,
                 withheld, verifyLog, enableCalled, lateOK, crashed, reported>>

(* ------------------------------ monitor --------------------------------- *)
MonRecv(s) ==        \* rendezvous on the unbuffered watcher channel
  /\ mon.pc = "select" /\ rep[s].pc = "send"
  /\ LET op == rep[s].op IN
     /\ rep' = [rep EXCEPT ![s].pc = IF op = "block" THEN "await" ELSE "idle"]
     /\ mon' = [NoMon EXCEPT !.pc = "recv", !.kind = IF op = "block" THEN "val" ELSE op, !.src = s, !.val = rep[s].val,
                              !.blocking = (op = "block"), !.n = rep[s].n]
     /\ lastAct' = Act("MonRecv", "mon", s, op, rep[s].val, 0)
     /\ reported' = IF op \in {"val", "block"} THEN [reported EXCEPT ![s] = rep[s].val] ELSE reported
  /\ UNCHANGED <<ver, srcVal, watching, skipVerify, cbq, monDone, monCtl, events, replies, resps, unregDone, cb, cli, ctxDone,
                 installs, verifiedFrom, delivered, minSerial, regSeen, unregTrue, afterUnreg, missedCatchup, dropped, errLog, gcbLog,
                 withheld, verifyLog, enableCalled, blockRet, lateOK, crashed>>

MonCompose ==        \* slot update + compose
  /\ mon.pc = "recv" /\ mon.kind = "val"
  /\ srcVal' = IF BUG_NoSlotUpdate /\ mon.src > 1 THEN srcVal ELSE [srcVal EXCEPT ![mon.src] = mon.val]
  /\ mon' = [mon EXCEPT !.pc = "composed", !.ok = StackableAll(srcVal')]
  /\ lastAct' = Act("MonCompose", "mon", 0, IF StackableAll(srcVal') THEN "ok" ELSE "fail", NoVal, 0)
  /\ UNCHANGED <<ver, watching, skipVerify, cbq, monDone, monCtl, events, replies, resps, unregDone, cb, rep, cli, ctxDone, obsVars>>

NewCfg == Stack(Def, srcVal)

MonVerify ==
  /\ mon.pc = "composed" /\ mon.ok
  /\ LET good == skipVerify \/ Valid(NewCfg) \/ BUG_StoreBeforeVerify IN
     /\ mon' = [mon EXCEPT !.pc = "verified", !.ok = good]
     /\ lastAct' = Act("MonVerify", "mon", 0, IF good THEN "ok" ELSE "fail", NoVal, 0)
  /\ verifyLog' = IF skipVerify THEN verifyLog ELSE Append(verifyLog, [x |-> NewCfg.x, y |-> NewCfg.y, who |-> "mon"])
  /\ replies' = IF BUG_ReplyBeforeStore /\ mon.blocking /\ (skipVerify \/ Valid(NewCfg))
                 THEN replies \cup {[src |-> mon.src, n |-> mon.n, res |-> "nil"]} ELSE replies
  /\ UNCHANGED <<ver, srcVal, watching, skipVerify, cbq, monDone, monCtl, events, resps, unregDone, cb, rep, cli, ctxDone,
                 installs, verifiedFrom, delivered, minSerial, regSeen, unregTrue, afterUnreg, missedCatchup, dropped, errLog, gcbLog,
                 withheld, enableCalled, blockRet, lateOK, crashed, reported>>

MonRejSubmit ==      \* submitEvent(watchErrorEvent) on either reject path
  /\ \/ mon.pc = "composed" /\ ~mon.ok
     \/ mon.pc = "verified" /\ ~mon.ok
  /\ LET why == IF mon.pc = "composed" THEN "stack" ELSE "verify"
         ev == [NoEv EXCEPT !.k = "werr", !.err = why, !.old = ver.serial, !.hasNew = (why = "verify"),
                            !.newx = IF why = "verify" THEN NewCfg.x ELSE 0, !.newy = IF why = "verify" THEN NewCfg.y ELSE 0] IN
     \E o \in SubmitOutcomes(ev) :
       /\ cbq' = o.q
       /\ mon' = [mon EXCEPT !.pc = "rejected", !.why = why]
       /\ lastAct' = Act("MonRejSubmit", "mon", 0, why, NoVal, IF o.lost THEN 1 ELSE 0)
  /\ UNCHANGED <<ver, srcVal, watching, skipVerify, monDone, monCtl, events, replies, resps, unregDone, cb, rep, cli, ctxDone, obsVars>>

MonRejReply ==
  /\ mon.pc = "rejected"
  /\ replies' = IF mon.blocking THEN replies \cup {[src |-> mon.src, n |-> mon.n, res |-> mon.why]} ELSE replies
  /\ mon' = NoMon
  /\ lastAct' = Act("MonRejReply", "mon", 0, mon.why, NoVal, 0)
  /\ UNCHANGED <<ver, srcVal, watching, skipVerify, cbq, monDone, monCtl, events, resps, unregDone, cb, rep, cli, ctxDone, obsVars>>

MonStore ==          \* the atomic store: the linearization point of an install
  /\ mon.pc = "verified" /\ mon.ok /\ ver.serial < MaxSerial
  /\ LET ns == ver.serial + (IF BUG_SerialPlus2 /\ ver.serial = 1 THEN 2 ELSE 1) IN
     /\ ver' = [serial |-> ns, x |-> NewCfg.x, y |-> NewCfg.y]
     /\ installs' = Append(installs, [x |-> NewCfg.x, y |-> NewCfg.y, src |-> mon.src, n |-> mon.n])
  /\ mon' = [mon EXCEPT !.pc = "store"]
  /\ lastAct' = Act("MonStore", "mon", ver.serial + 1, "", [x |-> NewCfg.x, y |-> NewCfg.y, u |-> FALSE], 0)
  /\ UNCHANGED <<srcVal, watching, skipVerify, cbq, monDone, monCtl, events, replies, resps, unregDone, cb, rep, cli, ctxDone,
                 verifiedFrom, delivered, minSerial, regSeen, unregTrue, afterUnreg, missedCatchup, dropped, errLog, gcbLog,
                 withheld, verifyLog, enableCalled, blockRet, lateOK, crashed, reported>>

MonNotify ==         \* select { updatesChan <- cfg | default }
  /\ mon.pc = "store"
  /\ events' = IF Len(events) < 1 THEN Append(events, ver.serial) ELSE events
  /\ mon' = [mon EXCEPT !.pc = "notified"]
  /\ lastAct' = Act("MonNotify", "mon", 0, IF Len(events) < 1 THEN "sent" ELSE "full", NoVal, 0)
  /\ UNCHANGED <<ver, srcVal, watching, skipVerify, cbq, monDone, monCtl, replies, resps, unregDone, cb, rep, cli, ctxDone, obsVars>>

MonReply ==
  /\ mon.pc = "notified"
  /\ replies' = IF mon.blocking /\ ~BUG_ReplyBeforeStore THEN replies \cup {[src |-> mon.src, n |-> mon.n, res |-> "nil"]} ELSE replies
  /\ mon' = [mon EXCEPT !.pc = "reply"]
  /\ lastAct' = Act("MonReply", "mon", 0, "", NoVal, 0)
  /\ UNCHANGED <<ver, srcVal, watching, skipVerify, cbq, monDone, monCtl, events, resps, unregDone, cb, rep, cli, ctxDone, obsVars>>

MonSubmitNew ==
  /\ mon.pc = "reply"
  /\ LET ev == [NoEv EXCEPT !.k = "newcfg", !.old = ver.serial - 1, !.new = ver.serial, !.sup = skipVerify /\ Suppress] IN
     \E o \in SubmitOutcomes(ev) :
       /\ cbq' = o.q
       /\ dropped' = (dropped \/ o.lost)
       /\ lastAct' = Act("MonSubmitNew", "mon", ver.serial, "", NoVal, IF o.lost THEN 1 ELSE 0)
  /\ mon' = NoMon
  /\ UNCHANGED <<ver, srcVal, watching, skipVerify, monDone, monCtl, events, replies, resps, unregDone, cb, rep, cli, ctxDone,
                 installs, verifiedFrom, delivered, minSerial, regSeen, unregTrue, afterUnreg, missedCatchup, errLog, gcbLog,
                 withheld, verifyLog, enableCalled, blockRet, lateOK, crashed, reported>>

MonSrcErr ==         \* a watching source reported an error
  /\ mon.pc = "recv" /\ mon.kind = "err"
  /\ LET hold == IF BUG_SrcErrSuppress THEN skipVerify \/ Suppress ELSE skipVerify /\ Suppress
         ev == [NoEv EXCEPT !.k = "werr", !.err = "src", !.old = ver.serial] IN
     IF hold
     THEN /\ withheld' = Append(withheld, [kind |-> "srcerr", delayed |-> skipVerify /\ Suppress])
          /\ lastAct' = Act("MonSrcErr", "mon", 0, "withheld", NoVal, 0)
          /\ UNCHANGED cbq
     ELSE \E o \in SubmitOutcomes(ev) :
            /\ cbq' = o.q
            /\ lastAct' = Act("MonSrcErr", "mon", 0, "submitted", NoVal, IF o.lost THEN 1 ELSE 0)
            /\ UNCHANGED withheld
  /\ mon' = NoMon
  /\ UNCHANGED <<ver, srcVal, watching, skipVerify, monDone, monCtl, events, replies, resps, unregDone, cb, rep, cli, ctxDone,
                 installs, verifiedFrom, delivered, minSerial, regSeen, unregTrue, afterUnreg, missedCatchup, dropped, errLog, gcbLog,
                 verifyLog, enableCalled, blockRet, lateOK, crashed, reported>>

MonDone ==           \* a watcher is finished; exit when it was the last
  /\ mon.pc = "recv" /\ mon.kind = "done"
  /\ watching' = [watching EXCEPT ![mon.src] = FALSE]
  /\ mon' = IF \E s \in Srcs : watching'[s] THEN NoMon ELSE [NoMon EXCEPT !.pc = "exit"]
  /\ lastAct' = Act("MonDone", "mon", mon.src, "", NoVal, 0)
  /\ UNCHANGED <<ver, srcVal, skipVerify, cbq, monDone, monCtl, events, replies, resps, unregDone, cb, rep, cli, ctxDone, obsVars>>

MonRecvCtl ==
  /\ mon.pc = "select" /\ monCtl # <<>>
  /\ mon' = [NoMon EXCEPT !.pc = "recv", !.kind = "ctl", !.cli = Head(monCtl)]
  /\ monCtl' = Tail(monCtl)
  /\ lastAct' = Act("MonRecvCtl", "mon", Head(monCtl).c, "", NoVal, 0)
  /\ UNCHANGED <<ver, srcVal, watching, skipVerify, cbq, monDone, events, replies, resps, unregDone, cb, rep, cli, ctxDone, obsVars>>

MonEnable ==         \* monitorEnableVerify / the no-op answer
  /\ mon.pc = "recv" /\ mon.kind = "ctl"
  /\ LET cur == [x |-> ver.x, y |-> ver.y]
         R(ok) == [c |-> mon.cli.c, n |-> mon.cli.n, ok |-> ok, serial |-> IF ok THEN ver.serial ELSE 0,
                   x |-> IF ok THEN ver.x ELSE 0, y |-> IF ok THEN ver.y ELSE 0] IN
     IF ~skipVerify
     THEN /\ resps' = resps \cup {R(TRUE)}
          /\ lastAct' = Act("MonEnable", "mon", 0, "noop", NoVal, 0)
          /\ UNCHANGED <<skipVerify, verifiedFrom, verifyLog>>
     ELSE /\ verifyLog' = Append(verifyLog, [x |-> ver.x, y |-> ver.y, who |-> "enable"])
          /\ IF Valid(cur)
             THEN /\ resps' = resps \cup {R(TRUE)}
                  /\ skipVerify' = FALSE
                  /\ verifiedFrom' = IF verifiedFrom < 0 THEN ver.serial ELSE verifiedFrom
                  /\ lastAct' = Act("MonEnable", "mon", 0, "ok", NoVal, 0)
             ELSE /\ resps' = resps \cup {R(FALSE)}
                  /\ lastAct' = Act("MonEnable", "mon", 0, "fail", NoVal, 0)
                  /\ UNCHANGED <<skipVerify, verifiedFrom>>
  /\ mon' = NoMon
  /\ UNCHANGED <<ver, srcVal, watching, cbq, monDone, monCtl, events, replies, unregDone, cb, rep, cli, ctxDone,
                 installs, delivered, minSerial, regSeen, unregTrue, afterUnreg, missedCatchup, dropped, errLog, gcbLog,
                 withheld, enableCalled, blockRet, lateOK, crashed, reported>>

MonCtx ==            \* the select took ctx.Done
  /\ mon.pc = "select" /\ ctxDone
  /\ mon' = [NoMon EXCEPT !.pc = "exit"]
  /\ lastAct' = Act("MonCtx", "mon", 0, "", NoVal, 0)
  /\ UNCHANGED <<ver, srcVal, watching, skipVerify, cbq, monDone, monCtl, events, replies, resps, unregDone, cb, rep, cli, ctxDone, obsVars>>

MonExit ==           \* deferred: signal shutdown (close(monDone); before the fix: close(cbch))
  /\ mon.pc = "exit"
  /\ monDone' = TRUE
  /\ mon' = [NoMon EXCEPT !.pc = "exited"]
  /\ lastAct' = Act("MonExit", "mon", 0, "", NoVal, 0)
  /\ UNCHANGED <<ver, srcVal, watching, skipVerify, cbq, monCtl, events, replies, resps, unregDone, cb, rep, cli, ctxDone, obsVars>>

(* -------------------------- callback goroutine -------------------------- *)
CbRecv ==
  /\ cb.pc = "idle" /\ cbq # <<>>
  /\ LET ev == Head(cbq) IN
     /\ cbq' = Tail(cbq)
     /\ cb' = [cb EXCEPT !.pc = "recv", !.ev = ev, !.idx = 0, !.cur = 0,
                         !.lastSerial = IF ev.k = "newcfg" THEN ev.new ELSE @]
     /\ lastAct' = Act("CbRecv", "cb", ev.new, ev.k, NoVal, ev.h)
  /\ UNCHANGED <<ver, srcVal, watching, skipVerify, mon, monDone, monCtl, events, replies, resps, unregDone, rep, cli, ctxDone, obsVars>>

CbExit ==
  /\ cb.pc = "idle" /\ cbq = <<>> /\ monDone
  /\ cb' = [cb EXCEPT !.pc = "exited"]
  /\ lastAct' = Act("CbExit", "cb", 0, "", NoVal, 0)
  /\ UNCHANGED <<ver, srcVal, watching, skipVerify, mon, cbq, monDone, monCtl, events, replies, resps, unregDone, rep, cli, ctxDone, obsVars>>

\* candidates of a new-config event: index 0 is the global OnNewConfig, i >= 1 is handles[i]
Eligible(ev, i) ==
  IF i = 0 THEN OnNew /\ ~ev.sup
  ELSE LET h == cb.handles[i] IN
       IF BUG_FilterGT THEN ~(minSerial[h] > ev.new) ELSE ~(minSerial[h] >= ev.new)

NextCand(ev, from) ==
  LET S == {i \in from..Len(cb.handles) : Eligible(ev, i)} IN IF S = {} THEN -1 ELSE CHOOSE i \in S : \A j \in S : i <= j

CbAdvance ==         \* the callback goroutine runs to its next gate: enters the next callback, or becomes idle
  /\ cb.pc \in {"recv", "incb"}
  /\ ~(cb.pc = "incb" /\ cb.cur \in cb.blk)          \* a callback that never returns
  /\ LET ev == cb.ev IN
     CASE ev.k = "newcfg" ->
            LET j == NextCand(ev, cb.idx) IN
            IF j < 0
            THEN /\ cb' = [cb EXCEPT !.pc = "idle", !.cur = 0]
                 /\ withheld' = IF OnNew /\ ev.sup /\ cb.pc = "recv" THEN Append(withheld, [kind |-> "newcfg", delayed |-> ev.sup]) ELSE withheld
                 /\ lastAct' = Act("CbAdvance", "cb", 0, "idle", NoVal, 0)
                 /\ UNCHANGED <<delivered, afterUnreg, gcbLog, errLog, missedCatchup, regSeen, unregDone>>
            ELSE IF j = 0
            THEN /\ cb' = [cb EXCEPT !.pc = "incb", !.idx = 1, !.cur = 0]
                 /\ gcbLog' = Append(gcbLog, [old |-> ev.old, new |-> ev.new])
                 /\ lastAct' = Act("CbAdvance", "cb", ev.new, "onnew", NoVal, 0)
                 /\ UNCHANGED <<delivered, afterUnreg, withheld, errLog, missedCatchup, regSeen, unregDone>>
            ELSE LET h == cb.handles[j] IN
                 /\ cb' = [cb EXCEPT !.pc = "incb", !.idx = j + 1, !.cur = h]
                 /\ delivered' = [delivered EXCEPT ![h] = Append(@, [old |-> ev.old, new |-> ev.new, cu |-> FALSE])]
                 /\ afterUnreg' = IF h \in unregTrue THEN afterUnreg \cup {h} ELSE afterUnreg
                 /\ withheld' = IF OnNew /\ ev.sup /\ cb.pc = "recv" THEN Append(withheld, [kind |-> "newcfg", delayed |-> ev.sup]) ELSE withheld
                 /\ lastAct' = Act("CbAdvance", "cb", ev.new, "h", NoVal, h)
                 /\ UNCHANGED <<gcbLog, errLog, missedCatchup, regSeen, unregDone>>
       [] ev.k = "werr" ->
            IF cb.pc = "recv" /\ OnErr
            THEN /\ cb' = [cb EXCEPT !.pc = "incb", !.cur = 0]
                 /\ errLog' = Append(errLog, [err |-> ev.err, old |-> ev.old, newx |-> ev.newx, newy |-> ev.newy, hasNew |-> ev.hasNew])
                 /\ lastAct' = Act("CbAdvance", "cb", 0, "onerr", NoVal, 0)
                 /\ UNCHANGED <<delivered, afterUnreg, gcbLog, withheld, missedCatchup, regSeen, unregDone>>
            ELSE /\ cb' = [cb EXCEPT !.pc = "idle", !.cur = 0]
                 /\ lastAct' = Act("CbAdvance", "cb", 0, "idle", NoVal, 0)
                 /\ UNCHANGED <<delivered, afterUnreg, gcbLog, errLog, withheld, missedCatchup, regSeen, unregDone>>
       [] ev.k = "reg" ->
            LET h == ev.h
                cu == ev.tokValid /\ (IF BUG_CatchupLE THEN ev.tok <= cb.lastSerial ELSE ev.tok < cb.lastSerial)
                should == ev.tokValid /\ ev.tok < cb.lastSerial IN
            IF cb.pc = "recv" /\ cu
            THEN /\ cb' = [cb EXCEPT !.pc = "incb", !.cur = h]
                 /\ delivered' = [delivered EXCEPT ![h] = Append(@, [old |-> ev.tok, new |-> cb.lastSerial, cu |-> TRUE])]
                 /\ missedCatchup' = IF should THEN missedCatchup ELSE missedCatchup \cup {h}
                 /\ lastAct' = Act("CbAdvance", "cb", cb.lastSerial, "catchup", NoVal, h)
                 /\ UNCHANGED <<afterUnreg, gcbLog, errLog, withheld, regSeen, unregDone>>
            ELSE /\ cb' = [cb EXCEPT !.pc = "idle", !.cur = 0, !.handles = Append(@, h),
                                     !.blk = IF ev.blk THEN @ \cup {h} ELSE @]
                 /\ regSeen' = regSeen \cup {h}
                 /\ missedCatchup' = IF cb.pc = "recv" /\ should THEN missedCatchup \cup {h} ELSE missedCatchup
                 /\ lastAct' = Act("CbAdvance", "cb", 0, "idle", NoVal, h)
                 /\ UNCHANGED <<delivered, afterUnreg, gcbLog, errLog, withheld, unregDone>>
       [] ev.k = "unreg" ->
            /\ IF BUG_UnregCap /\ Len(cb.handles) = 0
               THEN UNCHANGED <<cb, unregDone>>                \* makeslice: cap out of range
               ELSE /\ cb' = [cb EXCEPT !.pc = "idle", !.cur = 0, !.handles = SelectSeq(@, LAMBDA x : x # ev.h)]
                    /\ unregDone' = unregDone \cup {[c |-> ev.c, n |-> ev.n]}
            /\ lastAct' = Act("CbAdvance", "cb", 0, "idle", NoVal, ev.h)
            /\ UNCHANGED <<delivered, afterUnreg, gcbLog, errLog, withheld, missedCatchup, regSeen>>
  /\ UNCHANGED <<ver, srcVal, watching, skipVerify, mon, cbq, monDone, monCtl, events, replies, resps, rep, cli, ctxDone,
                 installs, verifiedFrom, minSerial, unregTrue, dropped, verifyLog, enableCalled, blockRet, lateOK, reported>>
  /\ crashed' = (crashed \/ (cb.ev.k = "unreg" /\ BUG_UnregCap /\ Len(cb.handles) = 0))

(* ------------------------------- clients -------------------------------- *)
CliView(c) ==        \* ViewVersion: one atomic load
  /\ cli[c].pc = "idle" /\ cli[c].n < MaxCliOps /\ "view" \in CliOps
  /\ cli' = [cli EXCEPT ![c].tok = ver.serial, ![c].tokValid = TRUE, ![c].n = @ + 1]
  /\ lastAct' = Act("CliView", "c", c, "view", NoVal, 0)
  /\ UNCHANGED <<ver, srcVal, watching, skipVerify, mon, cbq, monDone, monCtl, events, replies, resps, unregDone, cb, rep, ctxDone, obsVars>>

CliStart(c, op, h, useTok, blk) ==
  /\ cli[c].pc = "idle" /\ cli[c].n < MaxCliOps /\ op \in CliOps
  /\ op = "unreg" => h \in cli[c].regs
  /\ op # "unreg" => h = 0
  /\ op = "reg" => (useTok => cli[c].tokValid) /\ (blk => BlockingCbs)
  /\ op # "reg" => ~useTok /\ ~blk
  /\ op = "enable" => Delay          \* without DelayInitialVerification the call is a no-op (CliEnableNoop)
  /\ cli' = [cli EXCEPT ![c].pc = IF op = "enable" THEN "ctlsend" ELSE "submit", ![c].op = op, ![c].n = @ + 1,
                        ![c].cancelled = FALSE, ![c].h = IF op = "reg" THEN 10 * c + cli[c].n + 1 ELSE h,
                        ![c].useTok = useTok,
                        ![c].late = monDone, ![c].blk = blk]
  /\ minSerial' = IF op = "reg" THEN [minSerial EXCEPT ![10 * c + cli[c].n + 1] = IF useTok THEN cli[c].tok ELSE 0] ELSE minSerial
  /\ enableCalled' = (enableCalled \/ op = "enable")
  /\ lastAct' = Act("CliStart", "c", c, op, [x |-> IF useTok THEN 1 ELSE 0, y |-> IF blk THEN 1 ELSE 0, u |-> FALSE], h)
  /\ UNCHANGED <<ver, srcVal, watching, skipVerify, mon, cbq, monDone, monCtl, events, replies, resps, unregDone, cb, rep, ctxDone,
                 installs, verifiedFrom, delivered, regSeen, unregTrue, afterUnreg, missedCatchup, dropped, errLog, gcbLog,
                 withheld, verifyLog, blockRet, lateOK, crashed, reported>>

CliEnableNoop(c) ==  \* EnableVerification without DelayInitialVerification
  /\ cli[c].pc = "idle" /\ cli[c].n < MaxCliOps /\ "enable" \in CliOps /\ ~Delay
  /\ cli' = [cli EXCEPT ![c].n = @ + 1]
  /\ lastAct' = Act("CliEnableNoop", "c", c, "enable", NoVal, 0)
  /\ UNCHANGED <<ver, srcVal, watching, skipVerify, mon, cbq, monDone, monCtl, events, replies, resps, unregDone, cb, rep, ctxDone, obsVars>>

CliCancel(c) ==
  /\ AllowCliCancel /\ cli[c].pc \in {"submit", "await", "ctlsend", "ctlawait"} /\ ~cli[c].cancelled
  /\ cli' = [cli EXCEPT ![c].cancelled = TRUE]
  /\ lastAct' = Act("CliCancel", "c", c, "", NoVal, 0)
  /\ UNCHANGED <<ver, srcVal, watching, skipVerify, mon, cbq, monDone, monCtl, events, replies, resps, unregDone, cb, rep, ctxDone, obsVars>>

CliGiveUp(c) ==      \* a select took ctx.Done: the call reports failure
  /\ cli[c].pc \in {"submit", "await", "ctlsend", "ctlawait"} /\ cli[c].cancelled
  /\ cli' = [cli EXCEPT ![c].pc = "idle"]
  /\ lastAct' = Act("CliGiveUp", "c", c, cli[c].op, NoVal, 0)
  /\ UNCHANGED <<ver, srcVal, watching, skipVerify, mon, cbq, monDone, monCtl, events, replies, resps, unregDone, cb, rep, ctxDone, obsVars>>

CliSubmitCb(c) ==    \* submitEventBlocking for register / unregister
  /\ cli[c].pc = "submit"
  /\ IF monDone
     THEN IF BUG_CloseCbq
          THEN /\ crashed' = TRUE                                   \* send on closed channel
               /\ lastAct' = Act("CliSubmitCb", "c", c, "panic", NoVal, 0)
               /\ UNCHANGED <<cli, cbq, lateOK>>
          ELSE /\ cli' = [cli EXCEPT ![c].pc = "idle"]              \* failure indication
               /\ lastAct' = Act("CliSubmitCb", "c", c, "shutdown", NoVal, 0)
               /\ UNCHANGED <<crashed, cbq, lateOK>>
     ELSE /\ Len(cbq) < CbCap
          /\ UNCHANGED crashed
          /\ IF cli[c].op = "reg"
             THEN /\ cbq' = Append(cbq, [NoEv EXCEPT !.k = "reg", !.h = cli[c].h, !.tok = IF cli[c].useTok THEN cli[c].tok ELSE 0,
                                                       !.tokValid = cli[c].useTok, !.c = c, !.n = cli[c].n, !.blk = cli[c].blk])
                  /\ cli' = [cli EXCEPT ![c].pc = "idle", ![c].regs = @ \cup {cli[c].h}]
                  /\ lateOK' = (lateOK \/ cli[c].late)
             ELSE /\ cbq' = Append(cbq, [NoEv EXCEPT !.k = "unreg", !.h = cli[c].h, !.c = c, !.n = cli[c].n])
                  /\ cli' = [cli EXCEPT ![c].pc = "await"]
                  /\ UNCHANGED lateOK
          /\ lastAct' = Act("CliSubmitCb", "c", c, "sent", NoVal, cli[c].h)
  /\ UNCHANGED <<ver, srcVal, watching, skipVerify, mon, monDone, monCtl, events, replies, resps, unregDone, cb, rep, ctxDone,
                 installs, verifiedFrom, delivered, minSerial, regSeen, unregTrue, afterUnreg, missedCatchup, dropped, errLog, gcbLog,
                 withheld, verifyLog, enableCalled, blockRet, reported>>

CliUnregDone(c) ==   \* the done channel was closed: unregister returns true
  /\ cli[c].pc = "await" /\ [c |-> c, n |-> cli[c].n] \in unregDone
  /\ unregTrue' = unregTrue \cup {cli[c].h}
  /\ lateOK' = (lateOK \/ cli[c].late)
  /\ cli' = [cli EXCEPT ![c].pc = "idle"]
  /\ lastAct' = Act("CliUnregDone", "c", c, "true", NoVal, cli[c].h)
  /\ UNCHANGED <<ver, srcVal, watching, skipVerify, mon, cbq, monDone, monCtl, events, replies, resps, unregDone, cb, rep, ctxDone,
                 installs, verifiedFrom, delivered, minSerial, regSeen, afterUnreg, missedCatchup, dropped, errLog, gcbLog,
                 withheld, verifyLog, enableCalled, blockRet, crashed, reported>>

CliUnregShutdown(c) ==  \* the monitor is gone: unregister returns false
  /\ cli[c].pc = "await" /\ monDone /\ ~BUG_CloseCbq
  /\ cli' = [cli EXCEPT ![c].pc = "idle"]
  /\ lastAct' = Act("CliUnregShutdown", "c", c, "false", NoVal, cli[c].h)
  /\ UNCHANGED <<ver, srcVal, watching, skipVerify, mon, cbq, monDone, monCtl, events, replies, resps, unregDone, cb, rep, ctxDone, obsVars>>

CliCtlSend(c) ==
  /\ cli[c].pc = "ctlsend" /\ Len(monCtl) < 3
  /\ monCtl' = Append(monCtl, [c |-> c, n |-> cli[c].n])
  /\ cli' = [cli EXCEPT ![c].pc = "ctlawait"]
  /\ lastAct' = Act("CliCtlSend", "c", c, "", NoVal, 0)
  /\ UNCHANGED <<ver, srcVal, watching, skipVerify, mon, cbq, monDone, events, replies, resps, unregDone, cb, rep, ctxDone, obsVars>>

CliCtlResp(c) ==
  /\ cli[c].pc = "ctlawait"
  /\ \E m \in resps : m.c = c /\ m.n = cli[c].n /\
       /\ resps' = resps \ {m}
       /\ lastAct' = Act("CliCtlResp", "c", c, IF m.ok THEN "ok" ELSE "fail", [x |-> m.x, y |-> m.y, u |-> FALSE], m.serial)
  /\ cli' = [cli EXCEPT ![c].pc = "idle"]
  /\ UNCHANGED <<ver, srcVal, watching, skipVerify, mon, cbq, monDone, monCtl, events, replies, unregDone, cb, rep, ctxDone, obsVars>>

Cancel ==            \* the Config context ends
  /\ AllowCancel /\ ~ctxDone /\ ctxDone' = TRUE
  /\ lastAct' = Act("Cancel", "env", 0, "", NoVal, 0)
  /\ UNCHANGED <<ver, srcVal, watching, skipVerify, mon, cbq, monDone, monCtl, events, replies, resps, unregDone, cb, rep, cli, obsVars>>

EventsRecv ==        \* some reader drains Events()
  /\ events # <<>> /\ events' = Tail(events)
  /\ lastAct' = Act("EventsRecv", "e", Head(events), "", NoVal, 0)
  /\ UNCHANGED <<ver, srcVal, watching, skipVerify, mon, cbq, monDone, monCtl, replies, resps, unregDone, cb, rep, cli, ctxDone, obsVars>>

RepNext(s) ==
  \/ \E v \in Vals : RepStart(s, "val", v) \/ RepStart(s, "block", v)
  \/ RepStart(s, "err", NoVal) \/ RepStart(s, "done", NoVal)
  \/ RepCancel(s) \/ RepGiveUp(s) \/ RepGotReply(s)

MonNext ==
  \/ \E s \in Srcs : MonRecv(s)
  \/ MonCompose \/ MonVerify \/ MonRejSubmit \/ MonRejReply \/ MonStore \/ MonNotify \/ MonReply \/ MonSubmitNew
  \/ MonSrcErr \/ MonDone \/ MonRecvCtl \/ MonEnable \/ MonCtx \/ MonExit

CbNext == CbRecv \/ CbAdvance \/ CbExit

CliNext(c) ==
  \/ CliView(c) \/ CliEnableNoop(c)
  \/ \E ut \in BOOLEAN, bk \in BOOLEAN : CliStart(c, "reg", 0, ut, bk)
  \/ \E h \in Handles : CliStart(c, "unreg", h, FALSE, FALSE)
  \/ CliStart(c, "enable", 0, FALSE, FALSE)
  \/ CliCancel(c) \/ CliGiveUp(c) \/ CliSubmitCb(c) \/ CliUnregDone(c) \/ CliUnregShutdown(c) \/ CliCtlSend(c) \/ CliCtlResp(c)

Next ==
  \/ \E s \in Srcs : RepNext(s)
  \/ MonNext \/ CbNext
  \/ \E c \in Clients : CliNext(c)
  \/ Cancel \/ EventsRecv

Spec == Init /\ [][Next]_vars

\* every goroutine step is weakly fair; the environment (new operations, cancellations) is not
Fairness ==
  /\ WF_vars(MonNext) /\ WF_vars(CbNext)
  /\ \A s \in Srcs : WF_vars(RepGiveUp(s) \/ RepGotReply(s))
  /\ \A c \in Clients : WF_vars(CliGiveUp(c) \/ CliSubmitCb(c) \/ CliUnregDone(c) \/ CliUnregShutdown(c) \/ CliCtlSend(c) \/ CliCtlResp(c))
FairSpec == Spec /\ Fairness

-----------------------------------------------------------------------------
(* Properties (the listed ones, over observation variables)                  *)
TypeOK == ver.serial \in 0..(MaxSerial + 1) /\ Len(cbq) <= CbCap /\ Len(events) <= 1 /\ Len(monCtl) <= 3

\* C04
C04_VisibleVerified == (verifiedFrom >= 0 /\ ver.serial >= verifiedFrom) => Valid(ver)
C04_InstalledVerified == \A k \in 1..Len(installs) : (verifiedFrom >= 0 /\ k >= verifiedFrom) => Valid(CfgOf(k))
C04_RejectInstallsNothing == [][(mon.pc \in {"rejected"} \/ (mon.pc = "composed" /\ ~mon.ok) \/ (mon.pc = "verified" /\ ~mon.ok)) => ver' = ver]_vars
C04_ErrArgs == \A i \in 1..Len(errLog) : errLog[i].err = "verify" => (errLog[i].hasNew /\ ~ValidXY(errLog[i].newx, errLog[i].newy))
\* C05
C05_SerialStep == [][ver'.serial \in {ver.serial, ver.serial + 1} /\ (ver' # ver => ver'.serial = ver.serial + 1)]_ver
C05_SerialCountsInstalls == ver.serial = Len(installs)
FreshCfg == Stack(Def, reported)     \* what a fresh Config call over the latest reported values would build
C05_ViewIsFreshStack ==
  (mon.pc = "select" /\ StackableAll(reported) /\ (skipVerify \/ Valid(FreshCfg))) => (ver.x = FreshCfg.x /\ ver.y = FreshCfg.y)
\* C06
C06_NoStale == \A h \in Handles : \A i \in 1..Len(delivered[h]) :
                  /\ delivered[h][i].new > minSerial[h]
                  /\ i > 1 => delivered[h][i].new > delivered[h][i-1].new
C06_OldIsPred == \A h \in Handles : \A i \in 1..Len(delivered[h]) : ~delivered[h][i].cu => delivered[h][i].old + 1 = delivered[h][i].new
C06_NoSkip == ~dropped => \A h \in Handles : \A i \in 2..Len(delivered[h]) : delivered[h][i].new = delivered[h][i-1].new + 1
C06_NoCallAfterUnreg == afterUnreg = {}
C06_CatchUpIff == missedCatchup = {}
C06_GlobalInOrder == \A i \in 1..Len(gcbLog) : gcbLog[i].old + 1 = gcbLog[i].new /\ (i > 1 => gcbLog[i].new > gcbLog[i-1].new)
\* C07
C07_NilMeansInstalled == \A s \in Srcs : blockRet[s].res = "nil" => (blockRet[s].stored >= 1 /\ blockRet[s].at >= blockRet[s].stored)
C07_ErrMeansNotInstalled == \A s \in Srcs : blockRet[s].res \in {"stack", "verify"} => blockRet[s].stored = 0
\* C08
C08_NoCrash == ~crashed
C08_LateCallsFail == ~lateOK
AllQuiet == mon.pc = "exited" /\ cb.pc \in {"exited"}
C08_ShutdownCompletes == (monDone /\ cb.blk = {}) ~> AllQuiet
C08_CancelStopsMonitor == ctxDone ~> (mon.pc = "exited")
\* C09
C09_NoVerifyBeforeEnable == (Delay /\ ~enableCalled) => verifyLog = <<>>
C09_WithheldOnlyWhileDelayed == \A i \in 1..Len(withheld) : withheld[i].delayed
C09_EnableVerifiesInstalled ==
  [][(lastAct'.a = "MonEnable" /\ lastAct'.op \in {"ok", "fail"}) =>
       (verifyLog' # verifyLog /\ verifyLog'[Len(verifyLog')] = [x |-> ver.x, y |-> ver.y, who |-> "enable"]
        /\ (lastAct'.op = "fail" => skipVerify' = skipVerify) /\ (lastAct'.op = "ok" => Valid(ver)))]_vars
C09_VerifiedWhenNotDelayed ==
  [][(lastAct'.a = "MonStore" /\ ~skipVerify) => (verifyLog # <<>> /\ verifyLog[Len(verifyLog)].x = ver'.x /\ verifyLog[Len(verifyLog)].y = ver'.y)]_vars
=============================================================================
