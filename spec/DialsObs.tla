------------------------------ MODULE DialsObs ------------------------------
(***************************************************************************)
(* Observer: evaluates the listed kernel properties (C04-C09) on histories *)
(* recorded from the real library (ndjson written by the Go harness and    *)
(* normalised by vlib/trace.py so that every record carries every field).  *)
(* It deliberately knows nothing about how the monitor is implemented: it  *)
(* re-computes validity and stacking from logged values and states each    *)
(* property over API-observable events.  One TLC run consumes many traces  *)
(* (a "begin" event resets the per-scenario state); every breach is added  *)
(* to `viol` and printed at the end, so a single run reports all of them.  *)
(***************************************************************************)
EXTENDS Naturals, Integers, Sequences, FiniteSets, TLC, Json, KernelData

CONSTANT LogFile
Log == ndJsonDeserialize(LogFile)

VARIABLES l, st, viol
vars == <<l, st, viol>>

Put(f, k, v) == [x \in DOMAIN f \cup {k} |-> IF x = k THEN v ELSE f[x]]
Get(f, k, d) == IF k \in DOMAIN f THEN f[k] ELSE d
EmptyFn == [x \in {} |-> 0]

NoCfg == [cfg |-> -1, x |-> 0, y |-> 0]
NoMon == [active |-> FALSE, kind |-> "", src |-> 0, blocking |-> FALSE, g |-> "", n |-> 0,
          outcome |-> "", submitted |-> FALSE, expect |-> "", verifiedSeen |-> FALSE, verifyCalls |-> 0]
NoCb  == [active |-> FALSE, kind |-> "", serial |-> 0, calls |-> <<>>, h |-> 0, expectCatchup |-> FALSE,
          withheld |-> FALSE, err |-> "", old |-> -1, newx |-> 0, newy |-> 0, known |-> FALSE, gotGlobal |-> FALSE]

Fresh(e) ==
  [sc |-> e.sc, mode |-> IF e.mode = "free" THEN "free" ELSE "gated",
   skip |-> e.skip, delay |-> e.delay, suppress |-> e.suppress, onnew |-> e.onnew, onerr |-> e.onerr,
   nsrc |-> e.nsrc, def |-> [x |-> e.defx, y |-> e.defy],
   cfgok |-> FALSE,
   srcVal |-> [i \in 1..e.nsrc |-> [x |-> 0, y |-> 0, u |-> FALSE]],
   curCall |-> EmptyFn,          \* g -> latest call record
   pend |-> [i \in 1..e.nsrc |-> <<>>],   \* per source: value reports called but not yet received by the monitor
   ver |-> [serial |-> 0, cfg |-> -1, x |-> 0, y |-> 0],
   installs |-> <<>>,            \* installs[k] = config with serial k
   initCfg |-> NoCfg,
   delayOn |-> e.delay,          \* the observer's own notion of "delay in force"
   enableCalled |-> FALSE,
   verifiedFrom |-> IF e.delay THEN -1 ELSE IF e.skip THEN 1 ELSE 0,   \* -1: not yet
   lastVerify |-> [x |-> 0, y |-> 0, ok |-> TRUE, n |-> 0],
   mon |-> NoMon,
   outcome |-> EmptyFn,          \* "g#n" of a value report -> [stored |-> serial or 0, rej |-> "" or class]
   q |-> <<>>,                   \* expected callback-queue content (gated mode only)
   cb |-> NoCb,
   regs |-> <<>>,                \* handles in registration order, as the callback goroutine knows them
   minSerial |-> EmptyFn, tokValid |-> EmptyFn, tokCfg |-> EmptyFn,
   lastAnn |-> [serial |-> 0, cfg |-> -1],
   lastDel |-> EmptyFn,          \* h -> last delivered serial
   lastGlobal |-> 0,
   unregTrue |-> {},
   incb |-> FALSE,
   gLast |-> EmptyFn, evLast |-> 0,
   dropped |-> FALSE,
   pendPairs |-> {},             \* observed <<cfg, serial, x, y>> not yet matched against an install
   pendEv |-> {},                \* configs received from Events not yet matched
   cancelled |-> {},             \* contexts that were cancelled ("ctx" or a process name)
   monExited |-> FALSE, lateCalls |-> {},
   ctlQ |-> <<>>, ctlCur |-> <<"", 0>>, answers |-> EmptyFn,   \* EnableVerification requests: queued, being handled, answered
   vAtCall |-> EmptyFn,          \* g -> number of Verify calls seen when its current call started
   doneSrcs |-> {},              \* sources whose Done the monitor has received
   sentWerr |-> 0, gotWerr |-> 0, teardown |-> FALSE]

Key(g, n) == <<g, n>>

V(st0, e, p) == [p |-> p, sc |-> e.sc, seq |-> e.seq]

CfgOfSerial(s, k) == IF k = 0 THEN s.initCfg
                     ELSE IF k \in 1..Len(s.installs) THEN s.installs[k] ELSE NoCfg

Active(s, serial) == s.verifiedFrom >= 0 /\ serial >= s.verifiedFrom

Gated(s) == s.mode = "gated" /\ ~s.teardown

(***************************************************************************)
(* Observation of a (config id, serial, content) triple by any reader.     *)
(***************************************************************************)
ObservePair(s, e, cfg, serial, x, y) ==
  LET known == serial = 0 \/ serial \in 1..Len(s.installs)
      inst  == CfgOfSerial(s, serial)
      badPair == known /\ (inst.cfg # cfg \/ inst.x # x \/ inst.y # y)
      invalid == Active(s, serial) /\ ~ValidXY(x, y)
  IN [s |-> IF known THEN s ELSE [s EXCEPT !.pendPairs = @ \cup {[cfg |-> cfg, serial |-> serial, x |-> x, y |-> y]}],
      v |-> (IF badPair THEN {V(s, e, "C05_PairMismatch")} ELSE {})
            \cup (IF invalid THEN {V(s, e, "C04_ObservedInvalid")} ELSE {})]

SerialOfCfg(s, cfg) ==
  IF cfg = s.initCfg.cfg THEN 0
  ELSE LET S == {k \in 1..Len(s.installs) : s.installs[k].cfg = cfg} IN
       IF S = {} THEN -1 ELSE CHOOSE k \in S : TRUE

(***************************************************************************)
(* Event handlers.  Each returns [s |-> new state, v |-> set of breaches].  *)
(***************************************************************************)
R(s, v) == [s |-> s, v |-> v]

OnConfig(s, e) ==
  LET init == [cfg |-> e.cfg, x |-> e.cfgx, y |-> e.cfgy]
      expect == Stack(s.def, s.srcVal)
      mustVerify == ~s.skip /\ ~s.delay
  IN IF ~e.ok
     THEN R(s, IF StackableAll(s.srcVal) /\ (~mustVerify \/ ValidXY(expect.x, expect.y))
                 THEN {V(s, e, "C04_ConfigFailed")} ELSE {})
     ELSE R([s EXCEPT !.cfgok = TRUE, !.initCfg = init, !.ver = [serial |-> 0, cfg |-> e.cfg, x |-> e.cfgx, y |-> e.cfgy]],
            (IF mustVerify /\ ~ValidXY(e.cfgx, e.cfgy) THEN {V(s, e, "C04_InitInvalid")} ELSE {})
            \cup (IF ~StackableAll(s.srcVal) \/ e.cfgx # expect.x \/ e.cfgy # expect.y THEN {V(s, e, "C01_InitStack")} ELSE {}))

OnInit(s, e) == R([s EXCEPT !.srcVal[e.src] = [x |-> e.x, y |-> e.y, u |-> e.u]], {})

OnVerify(s, e) ==
  R([s EXCEPT !.lastVerify = [x |-> e.x, y |-> e.y, ok |-> e.ok, n |-> @.n + 1],
              !.mon.verifyCalls = IF s.mon.active THEN @ + 1 ELSE @],
    IF s.delay /\ s.cfgok /\ ~s.enableCalled THEN {V(s, e, "C09_VerifyBeforeEnable")}
    ELSE IF s.delay /\ ~s.cfgok /\ ~s.enableCalled THEN {V(s, e, "C09_VerifyBeforeEnable")} ELSE {})

OnCall(s, e) ==
  LET s1 == [s EXCEPT !.curCall = Put(@, e.g, e), !.vAtCall = Put(@, e.g, s.lastVerify.n),
                      !.enableCalled = @ \/ e.op = "enable",
                      !.lateCalls = IF s.monExited /\ ~s.teardown THEN @ \cup {Key(e.g, e.n)} ELSE @]
  IN IF e.op = "reg"
     THEN R([s1 EXCEPT !.minSerial = Put(@, e.h, IF e.tokvalid THEN e.tok ELSE 0),
                       !.tokValid = Put(@, e.h, e.tokvalid)], {})
     ELSE IF e.op \in {"val", "block"}
     THEN R([s1 EXCEPT !.pend[e.src] = Append(@, [x |-> e.x, y |-> e.y, u |-> e.u, n |-> e.n, g |-> e.g])], {})
     ELSE R(s1, {})

(* ------------------------------ monitor ---------------------------------- *)
ExpectOutcome(s) ==
  LET st2 == Stack(s.def, s.srcVal) IN
  IF ~StackableAll(s.srcVal) THEN "stack"
  ELSE IF ~s.delayOn /\ ~ValidXY(st2.x, st2.y) THEN "verify" ELSE "store"

FinishIteration(s, e) ==
  \* called when the monitor is back at its select (or exits) after a value update
  IF s.mon.active /\ s.mon.kind = "err"
  THEN R([s EXCEPT !.mon = NoMon],
         \* an error reported by a source may be withheld only while the delay is in force and suppression was requested
         IF s.mon.expect = "submit" /\ ~s.mon.submitted THEN {V(s, e, "C09_SrcErrWithheld")} ELSE {})
  ELSE IF ~s.mon.active \/ s.mon.kind # "val" THEN R([s EXCEPT !.mon = NoMon], {})
  ELSE LET exp == s.mon.expect
           act == s.mon.outcome
           k == Key(s.mon.g, s.mon.n)
           s1 == [s EXCEPT !.mon = NoMon,
                           !.outcome = Put(@, k, [stored |-> IF act = "store" THEN s.ver.serial ELSE 0,
                                                   rej |-> IF act = "store" THEN "" ELSE act])]
       IN R(s1,
            (IF exp = "store" /\ act # "store" THEN {V(s, e, "C05_NotInstalled")} ELSE {})
            \cup (IF exp # "store" /\ act = "store" THEN {V(s, e, IF exp = "verify" THEN "C04_StoreInvalid" ELSE "C04_StoreUnstackable")} ELSE {})
            \cup (IF exp # "store" /\ act # "store" /\ act # exp THEN {V(s, e, "C04_WrongError")} ELSE {})
            \cup (IF act = "" THEN {V(s, e, "C04_NoOutcome")} ELSE {})
            \cup (IF act \in {"stack", "verify"} /\ ~s.mon.submitted THEN {V(s, e, "C04_NoErrEvent")} ELSE {})
            \cup (IF act = "store" /\ ~s.mon.submitted THEN {V(s, e, "C06_NoNewCfgEvent")} ELSE {})
            \cup (IF exp = "store" /\ ~s.delayOn /\ s.mon.verifyCalls = 0 THEN {V(s, e, "C09_NotVerified")} ELSE {})
            \cup (IF s.delayOn /\ s.mon.verifyCalls > 0 THEN {V(s, e, "C09_VerifyDuringDelay")} ELSE {}))

OnMonSelect(s, e) ==
  \* back at the select although every watching source has said Done: the monitor should have exited
  LET r == FinishIteration(s, e) IN
  R(r.s, r.v \cup (IF s.mon.active /\ s.mon.kind = "done" /\ s.doneSrcs = 1..s.nsrc THEN {V(s, e, "C08_NoExitAfterAllDone")} ELSE {}))

OnMonRecv(s, e) ==
  IF e.kind = "val"
  THEN LET has == s.pend[e.src] # <<>>
           c == IF has THEN Head(s.pend[e.src]) ELSE [x |-> 0, y |-> 0, u |-> FALSE, n |-> 0, g |-> RepOf(e.src)]
           sv == [s.srcVal EXCEPT ![e.src] = [x |-> c.x, y |-> c.y, u |-> c.u]]
           s1 == [s EXCEPT !.srcVal = sv, !.pend[e.src] = IF has THEN Tail(@) ELSE @]
       IN R([s1 EXCEPT !.mon = [NoMon EXCEPT !.active = TRUE, !.kind = "val", !.src = e.src, !.blocking = e.blocking,
                                              !.g = c.g, !.n = c.n, !.expect = ExpectOutcome(s1)]],
            IF has THEN {} ELSE {V(s, e, "C05_UnknownValue")})
  ELSE IF e.kind = "err"
  THEN R([s EXCEPT !.mon = [NoMon EXCEPT !.active = TRUE, !.kind = "err", !.src = e.src,
                                         !.expect = IF s.delayOn /\ s.suppress THEN "maywithhold" ELSE "submit"]], {})
  ELSE R([s EXCEPT !.mon = [NoMon EXCEPT !.active = TRUE, !.kind = e.kind, !.src = e.src],
                   !.doneSrcs = IF e.kind = "done" THEN @ \cup {e.src} ELSE @,
                   !.ctlCur = IF e.kind = "ctl" /\ s.ctlQ # <<>> THEN Head(s.ctlQ) ELSE <<"", 0>>,
                   !.ctlQ = IF e.kind = "ctl" /\ s.ctlQ # <<>> THEN Tail(@) ELSE @], {})

OnMonRejected(s, e) ==
  R([s EXCEPT !.mon.outcome = e.why], IF s.mon.outcome = "store" THEN {V(s, e, "C04_RejectAfterStore")} ELSE {})

OnMonStore(s, e) ==
  LET exp == Stack(s.def, s.srcVal)
      inst == [cfg |-> e.cfg, x |-> e.cfgx, y |-> e.cfgy]
      s1 == [s EXCEPT !.ver = [serial |-> e.serial, cfg |-> e.cfg, x |-> e.cfgx, y |-> e.cfgy],
                      !.installs = IF e.serial = Len(s.installs) + 1 THEN Append(@, inst) ELSE @,
                      !.mon.outcome = "store"]
      \* views that were logged before this store event (free mode) can now be matched
      matched == {p \in s.pendPairs : p.serial = e.serial}
      s2 == [s1 EXCEPT !.pendPairs = @ \ matched]
  IN R(s2,
       (IF e.serial # s.ver.serial + 1 THEN {V(s, e, "C05_SerialStep")} ELSE {})
       \cup (IF StackableAll(s.srcVal) /\ (e.cfgx # exp.x \/ e.cfgy # exp.y) THEN {V(s, e, "C05_NotFreshStack")} ELSE {})
       \cup (IF ~s.delayOn /\ ~ValidXY(e.cfgx, e.cfgy) THEN {V(s, e, "C04_StoreInvalid")} ELSE {})
       \cup (IF s.mon.outcome \in {"stack", "verify"} THEN {V(s, e, "C04_RejectAfterStore")} ELSE {})
       \cup (IF e.cfg = s.ver.cfg \/ \E k \in 1..Len(s.installs) : s.installs[k].cfg = e.cfg THEN {V(s, e, "C02_VersionReused")} ELSE {})
       \cup (IF \E p \in matched : p.cfg # e.cfg \/ p.x # e.cfgx \/ p.y # e.cfgy THEN {V(s, e, "C05_PairMismatch")} ELSE {}))

OnMonSubmit(s, e) ==
  LET sent == e.res = "sent"
      s0 == [s EXCEPT !.mon.submitted = TRUE]
  IN IF e.kind = "newcfg"
     THEN LET ent == [kind |-> "newcfg", serial |-> e.serial, withheld |-> s.delayOn /\ s.suppress, err |-> "",
                      old |-> IF e.serial >= 1 THEN CfgOfSerial(s, e.serial - 1).cfg ELSE -1, newx |-> 0, newy |-> 0, h |-> 0, g |-> "", n |-> 0]
          IN R([s0 EXCEPT !.q = IF sent /\ Gated(s) THEN Append(@, ent) ELSE @, !.dropped = @ \/ ~sent],
               (IF e.serial # s.ver.serial THEN {V(s, e, "C06_EventSerial")} ELSE {})
               \cup (IF e.sup # (s.delayOn /\ s.suppress) /\ e.sup THEN {V(s, e, "C09_Withheld")} ELSE {}))
     ELSE LET isrej == s.mon.kind = "val"
              st2 == Stack(s.def, s.srcVal)
              ent == [kind |-> "werr", serial |-> 0, withheld |-> FALSE, err |-> e.err, old |-> s.ver.cfg,
                      newx |-> IF isrej /\ e.err = "verify" THEN st2.x ELSE 0,
                      newy |-> IF isrej /\ e.err = "verify" THEN st2.y ELSE 0, h |-> IF isrej /\ e.err = "verify" THEN 1 ELSE 0, g |-> "", n |-> 0]
          IN R([s0 EXCEPT !.q = IF sent /\ Gated(s) THEN Append(@, ent) ELSE @,
                          !.sentWerr = IF sent THEN @ + 1 ELSE @],
               {})

OnMonEnable(s, e) ==
  \* the monitor answered an EnableVerification request
  LET validNow == ValidXY(s.ver.x, s.ver.y) IN
  IF e.noop
  THEN R([s EXCEPT !.answers = Put(@, s.ctlCur, [ok |-> TRUE, serial |-> s.ver.serial])],
         IF s.delayOn THEN {V(s, e, "C09_EnableNoopDuringDelay")} ELSE {})
  ELSE R([s EXCEPT !.delayOn = IF e.ok THEN FALSE ELSE @,
                   !.answers = Put(@, s.ctlCur, [ok |-> e.ok, serial |-> IF e.ok THEN s.ver.serial ELSE 0]),
                   !.verifiedFrom = IF e.ok /\ s.verifiedFrom < 0 THEN s.ver.serial ELSE @],
         (IF e.ok /\ ~validNow THEN {V(s, e, "C09_EnabledInvalid")} ELSE {})
         \cup (IF ~e.ok /\ validNow THEN {V(s, e, "C09_EnableFailedValid")} ELSE {})
         \cup (IF s.lastVerify.x # s.ver.x \/ s.lastVerify.y # s.ver.y THEN {V(s, e, "C09_EnableWrongCfg")} ELSE {}))

OnMonExited(s, e) ==
  \* the monitor may stop only when the Config context ends or when every watching source has said it is done: if it stops
  \* while a source still watches, that source's later reports can never be installed (the view no longer follows them)
  LET r == FinishIteration(s, e)
      early == ~s.teardown /\ "ctx" \notin s.cancelled /\ s.doneSrcs # 1..s.nsrc
  IN R([r.s EXCEPT !.monExited = TRUE], r.v \cup (IF early THEN {V(s, e, "C05_MonitorGoneEarly")} ELSE {}))

(* ------------------------------ callbacks -------------------------------- *)
OnApiCtlSent(s, e) ==
  IF ~Gated(s) THEN R(s, {})
  ELSE R([s EXCEPT !.ctlQ = Append(@, Key(e.g, Get(s.curCall, e.g, [n |-> 0]).n))], {})

OnApiSubmitSent(s, e) ==
  LET c == Get(s.curCall, e.g, [op |-> "", h |-> 0, n |-> 0, tok |-> 0, tokvalid |-> FALSE]) IN
  IF ~Gated(s) THEN R(s, {})
  ELSE R([s EXCEPT !.q = Append(@, [kind |-> c.op, serial |-> 0, withheld |-> FALSE, err |-> "", old |-> -1, newx |-> 0, newy |-> 0,
                                      h |-> c.h, g |-> e.g, n |-> c.n])], {})

ExpectedTargets(s, serial) == SelectSeq(s.regs, LAMBDA h : Get(s.minSerial, h, 0) < serial)

FinishCbEvent(s, e) ==
  \* the callback goroutine finished the event it was processing (it is idle again, or exits)
  IF ~s.cb.active THEN R(s, {})
  ELSE LET c == s.cb
           s1 == [s EXCEPT !.cb = NoCb]
       IN IF ~c.known THEN R(s1, {})
          ELSE IF c.kind = "newcfg"
          THEN LET hs == SelectSeq(c.calls, LAMBDA t : t # 0)
                   exph == ExpectedTargets(s, c.serial)
               IN R(s1,
                    (IF hs # exph THEN {V(s, e, "C06_Skipped")} ELSE {})
                    \cup (IF s.onnew /\ ~c.gotGlobal /\ ~c.withheld THEN {V(s, e, "C09_Withheld")} ELSE {}))
          ELSE IF c.kind = "werr"
          THEN R(s1, IF s.onerr /\ ~c.gotGlobal THEN {V(s, e, "C04_ErrCbMissing")} ELSE {})
          ELSE IF c.kind = "reg"
          THEN R([s1 EXCEPT !.regs = Append(@, c.h)],
                 IF c.expectCatchup /\ c.calls = <<>> THEN {V(s, e, "C06_CatchupMissing")} ELSE {})
          ELSE IF c.kind = "unreg"
          THEN R([s1 EXCEPT !.regs = SelectSeq(@, LAMBDA h : h # c.h)], {})
          ELSE R(s1, {})

OnCbIdle(s, e) == FinishCbEvent(s, e)

OnCbRecv(s, e) ==
  LET r0 == FinishCbEvent(s, e)
      s0 == r0.s
      has == Gated(s0) /\ s0.q # <<>>
      hd == IF has THEN Head(s0.q) ELSE [kind |-> e.kind, serial |-> e.serial, withheld |-> FALSE, err |-> "", old |-> -1,
                                          newx |-> 0, newy |-> 0, h |-> 0, g |-> "", n |-> 0]
      fifoBad == Gated(s0) /\ (s0.q = <<>> \/ hd.kind # e.kind \/ (e.kind = "newcfg" /\ hd.serial # e.serial))
      s1 == [s0 EXCEPT !.q = IF has THEN Tail(@) ELSE @]
      catch == e.kind = "reg" /\ e.tokvalid /\ e.tok < s0.lastAnn.serial
      s2 == [s1 EXCEPT !.cb = [NoCb EXCEPT !.active = TRUE, !.kind = e.kind, !.serial = e.serial, !.h = hd.h,
                                            !.expectCatchup = catch, !.withheld = hd.withheld, !.err = hd.err, !.old = hd.old,
                                            !.newx = hd.newx, !.newy = hd.newy, !.known = has /\ ~fifoBad],
                       !.lastAnn = IF e.kind = "newcfg" THEN [serial |-> e.serial, cfg |-> CfgOfSerial(s0, e.serial).cfg] ELSE @]
  IN R(s2, r0.v \cup (IF fifoBad THEN {V(s, e, "C06_Fifo")} ELSE {})
               \cup (IF e.kind = "newcfg" /\ e.serial <= s0.lastAnn.serial THEN {V(s, e, "C06_Order")} ELSE {}))

OnCbEnter(s, e) ==
  LET serNew == SerialOfCfg(s, e.new)
      serOld == SerialOfCfg(s, e.old)
      ser0 == IF s.incb THEN {V(s, e, "C06_NotSerialized")} ELSE {}
      s0 == [s EXCEPT !.incb = TRUE]
  IN IF e.which = "onerr"
     THEN LET c == s.cb IN
          R([s0 EXCEPT !.cb.gotGlobal = TRUE, !.gotWerr = @ + 1],
            ser0 \cup (IF c.active /\ c.known /\ c.kind = "werr" /\
                           (e.err # c.err \/ e.old # c.old \/ (c.h = 1 /\ (e.newx # c.newx \/ e.newy # c.newy \/ e.new < 0))
                              \/ (c.h = 0 /\ e.new >= 0))
                       THEN {V(s, e, "C04_ErrCbArgs")} ELSE {})
                 \cup (IF c.active /\ c.known /\ c.kind # "werr" THEN {V(s, e, "C06_Fifo")} ELSE {}))
     ELSE IF e.which = "onnew"
     THEN LET c == s.cb IN
          R([s0 EXCEPT !.cb.gotGlobal = TRUE, !.lastGlobal = IF serNew > @ THEN serNew ELSE @],
            ser0 \cup (IF serNew < 0 \/ serOld < 0 THEN {V(s, e, "C05_PairMismatch")} ELSE {})
                 \cup (IF serNew >= 0 /\ serNew <= s.lastGlobal THEN {V(s, e, "C06_Order")} ELSE {})
                 \cup (IF serNew >= 0 /\ serOld >= 0 /\ serOld + 1 # serNew THEN {V(s, e, "C06_OldNotPred")} ELSE {})
                 \cup (IF Active(s, serNew) /\ ~ValidXY(e.newx, e.newy) THEN {V(s, e, "C04_ObservedInvalid")} ELSE {})
                 \cup (IF c.active /\ c.known /\ c.kind = "newcfg" /\ c.serial # serNew THEN {V(s, e, "C06_EventSerial")} ELSE {})
                 \cup (IF c.active /\ c.known /\ c.kind = "newcfg" /\ c.withheld THEN {V(s, e, "C18_SuppressedDelivered")} ELSE {}))
     ELSE \* a registered callback
          LET h == e.h
              c == s.cb
              isCatch == c.active /\ c.kind = "reg"
              last == Get(s.lastDel, h, 0)
              minS == Get(s.minSerial, h, 0)
          IN R([s0 EXCEPT !.cb.calls = Append(@, h), !.lastDel = Put(@, h, IF serNew > last THEN serNew ELSE last)],
               ser0 \cup (IF serNew < 0 \/ serOld < 0 THEN {V(s, e, "C05_PairMismatch")} ELSE {})
                    \cup (IF serNew >= 0 /\ (serNew <= minS \/ serNew <= last) THEN {V(s, e, "C06_Stale")} ELSE {})
                    \cup (IF h \in s.unregTrue THEN {V(s, e, "C06_AfterUnreg")} ELSE {})
                    \cup (IF Active(s, serNew) /\ ~ValidXY(e.newx, e.newy) THEN {V(s, e, "C04_ObservedInvalid")} ELSE {})
                    \cup (IF ~isCatch /\ serNew >= 0 /\ serOld >= 0 /\ serOld + 1 # serNew THEN {V(s, e, "C06_OldNotPred")} ELSE {})
                    \cup (IF ~isCatch /\ c.active /\ c.known /\ c.kind = "newcfg" /\ c.serial # serNew THEN {V(s, e, "C06_EventSerial")} ELSE {})
                    \cup (IF isCatch /\ c.known /\ ~c.expectCatchup THEN {V(s, e, "C06_CatchupSpurious")} ELSE {})
                    \cup (IF isCatch /\ c.known /\ (serNew # s.lastAnn.serial \/ serOld # minS) THEN {V(s, e, "C06_CatchupArgs")} ELSE {})
                    \cup (IF ~s.dropped /\ ~isCatch /\ last > 0 /\ serNew >= 0 /\ serNew # last + 1 /\ Gated(s) THEN {V(s, e, "C06_Skipped")} ELSE {}))

OnCbExit(s, e) == R([s EXCEPT !.incb = FALSE], {})

OnCbExited(s, e) ==
  \* the callback goroutine is gone: whatever the monitor had queued for it (the queue did not overflow: those were dropped
  \* at submission) must have been delivered first
  LET r == FinishCbEvent(s, e)
      lostErr == Gated(s) /\ \E i \in 1..Len(s.q) : s.q[i].kind = "werr"
      lostNew == Gated(s) /\ \E i \in 1..Len(s.q) : s.q[i].kind = "newcfg"
  IN R(r.s, r.v \cup (IF lostErr THEN {V(s, e, "C04_ErrCbMissing")} ELSE {})
                \cup (IF lostNew THEN {V(s, e, "C06_Skipped")} ELSE {}))

(* ------------------------------- API ------------------------------------- *)
OnView(s, e) ==
  LET r == ObservePair(s, e, e.cfg, e.serial, e.cfgx, e.cfgy)
      last == Get(s.gLast, e.g, 0)
  IN R([r.s EXCEPT !.gLast = Put(@, e.g, IF e.serial > last THEN e.serial ELSE last)],
       r.v \cup (IF e.serial < last THEN {V(s, e, "C05_ReaderBackwards")} ELSE {}))

OnEventsRecv(s, e) ==
  LET ser == SerialOfCfg(s, e.cfg) IN
  R([s EXCEPT !.evLast = IF ser > @ THEN ser ELSE @],
    (IF ser < 0 THEN {V(s, e, "C05_PairMismatch")} ELSE {})
    \cup (IF ser >= 0 /\ ser < s.evLast THEN {V(s, e, "C05_EventsBackwards")} ELSE {})
    \cup (IF ser >= 0 /\ (CfgOfSerial(s, ser).x # e.cfgx \/ CfgOfSerial(s, ser).y # e.cfgy) THEN {V(s, e, "C02_VersionMutated")} ELSE {})
    \cup (IF ser >= 0 /\ Active(s, ser) /\ ~ValidXY(e.cfgx, e.cfgy) THEN {V(s, e, "C04_ObservedInvalid")} ELSE {}))

DropPend(s, e) ==
  \* a value report that gave up before the monitor took it is no longer pending
  IF e.op \in {"val", "block"} /\ e.res = "ctx" /\ ~(e.op = "block" /\ e.sent) /\ e.src \in DOMAIN s.pend
  THEN [s EXCEPT !.pend[e.src] = SelectSeq(@, LAMBDA c : ~(c.g = e.g /\ c.n = e.n))]
  ELSE s

OnRet0(s, e) ==
  LET late == Key(e.g, e.n) \in s.lateCalls
      ctxOk == e.g \in s.cancelled \/ s.teardown
  IN
  IF e.op = "block"
  THEN LET o == Get(s.outcome, Key(e.g, e.n), [stored |-> -1, rej |-> "none"])
           \* the monitor may still be inside this request's iteration when the caller gives up
           pending == o.stored = -1
           r == ObservePair(s, e, e.cfg, e.vserial, e.cfgx, e.cfgy)
       IN R(r.s,
            r.v
            \cup (IF e.res = "nil" /\ (pending \/ o.stored <= 0) /\ ~(s.mon.active /\ s.mon.g = e.g /\ s.mon.n = e.n /\ s.mon.outcome = "store")
                  THEN {V(s, e, "C07_NilNotInstalled")} ELSE {})
            \cup (IF e.res = "nil" /\ ~pending /\ o.stored > 0 /\ e.vserial < o.stored THEN {V(s, e, "C07_ViewBehind")} ELSE {})
            \cup (IF e.res = "nil" /\ s.mon.active /\ s.mon.g = e.g /\ s.mon.n = e.n /\ s.mon.outcome = "store" /\ e.vserial < s.ver.serial
                  THEN {V(s, e, "C07_ViewBehind")} ELSE {})
            \cup (IF e.res \in {"stack", "verify"} /\
                     ((~pending /\ o.rej # e.res) \/ (pending /\ ~(s.mon.active /\ s.mon.g = e.g /\ s.mon.n = e.n /\ s.mon.outcome = e.res)))
                  THEN {V(s, e, "C07_ErrMismatch")} ELSE {})
            \* told "nil" although the view read right after the call does not verify (verification never delayed in this scenario:
            \* SkipInitialVerification only skips the first Verify, every later report must still be verified)
            \cup (IF e.res = "nil" /\ ~s.delay /\ ~ValidXY(e.cfgx, e.cfgy) THEN {V(s, e, "C07_NilForFailing")} ELSE {})
            \cup (IF e.res = "ctx" /\ ~ctxOk THEN {V(s, e, "C07_CtxNotCancelled")} ELSE {})
            \cup (IF ~(e.res \in {"nil", "stack", "verify", "ctx"}) THEN {V(s, e, "C07_UnknownResult")} ELSE {})
            \cup (IF late /\ e.res = "nil" THEN {V(s, e, "C08_LateCallSucceeded")} ELSE {}))
  ELSE IF e.op \in {"val", "err"}
  THEN R(s, (IF e.res = "ctx" /\ ~ctxOk THEN {V(s, e, "C07_CtxNotCancelled")} ELSE {})
            \cup (IF late /\ e.res = "nil" THEN {V(s, e, "C08_LateCallSucceeded")} ELSE {}))
  ELSE IF e.op = "reg"
  THEN R(s, IF late /\ e.ok THEN {V(s, e, "C08_LateCallSucceeded")} ELSE {})
  ELSE IF e.op = "unreg"
  THEN R([s EXCEPT !.unregTrue = IF e.ok THEN @ \cup {e.h} ELSE @],
         (IF late /\ e.ok THEN {V(s, e, "C08_LateCallSucceeded")} ELSE {})
         \cup (IF e.ok /\ Gated(s) /\ e.h \in {s.regs[i] : i \in 1..Len(s.regs)} THEN {V(s, e, "C06_UnregNotProcessed")} ELSE {}))
  ELSE IF e.op = "enable"
  THEN LET r == IF e.res = "nil" THEN ObservePair(s, e, e.cfg, e.serial, e.cfgx, e.cfgy) ELSE R(s, {}) IN
       R(r.s,
         r.v \cup (IF e.res = "nil" /\ e.cfg < 0 THEN {V(s, e, "C09_EnableRet")} ELSE {})
             \cup (IF e.res = "nil" /\ s.delay /\ ~ValidXY(e.cfgx, e.cfgy) THEN {V(s, e, "C09_EnabledInvalid")} ELSE {})
             \cup (IF e.res = "nil" /\ s.delay /\ Gated(s) /\ s.delayOn /\ ~late /\ s.nsrc > 0 THEN {V(s, e, "C09_EnableRet")} ELSE {})
             \cup (IF e.res = "verify" /\ e.cfg >= 0 THEN {V(s, e, "C09_EnableRet")} ELSE {})
             \* the answer a caller gets is the monitor's answer to its own request
             \cup (IF Gated(s) /\ e.res # "ctx" /\ Key(e.g, e.n) \in DOMAIN s.answers /\
                      LET a == s.answers[Key(e.g, e.n)] IN (a.ok # (e.res = "nil")) \/ (a.ok /\ e.res = "nil" /\ a.serial # e.serial)
                   THEN {V(s, e, "C09_EnableRet")} ELSE {})
             \cup (IF Gated(s) /\ s.delay /\ s.nsrc > 0 /\ e.res # "ctx" /\ ~(Key(e.g, e.n) \in DOMAIN s.answers)
                   THEN {V(s, e, "C09_EnableRet")} ELSE {})
             \* without a monitor (no watching source) the call itself verifies the installed config
             \cup (IF s.nsrc = 0 /\ s.delay /\ e.res # "ctx" /\ (e.res = "nil") # ValidXY(s.ver.x, s.ver.y)
                   THEN {V(s, e, "C09_EnableRet")} ELSE {})
             \cup (IF s.nsrc = 0 /\ s.delay /\ e.res # "ctx" /\ s.lastVerify.n = Get(s.vAtCall, e.g, 0)
                   THEN {V(s, e, "C09_NotVerified")} ELSE {})
             \cup (IF e.res = "ctx" /\ ~ctxOk THEN {V(s, e, "C07_CtxNotCancelled")} ELSE {})
             \cup (IF ~(e.res \in {"nil", "verify", "ctx"}) THEN {V(s, e, "C09_EnableRet")} ELSE {}))
  ELSE R(s, {})

OnRet(s, e) == LET r == OnRet0(s, e) IN R(DropPend(r.s, e), r.v)

OnCancel(s, e) == R([s EXCEPT !.cancelled = @ \cup {e.which}], {})

OnFresh(s, e) ==
  \* fresh Config over static sources holding each source's latest value, taken while the monitor is idle
  R(s, IF e.ok /\ (e.x # s.ver.x \/ e.y # s.ver.y) THEN {V(s, e, "C05_FreshOracle")} ELSE {})

OnAnomaly(s, e) ==
  R(s, IF e.kind = "hang" THEN {V(s, e, "C08_Hang")}
       ELSE IF e.kind = "concurrent" THEN {V(s, e, "C06_NotSerialized")}
       ELSE IF e.kind = "enstall" THEN {V(s, e, "C09_EnableUnanswered"), V(s, e, "C08_Anomaly")}
       ELSE {V(s, e, "C08_Anomaly")})

OnPanic(s, e) == R(s, {V(s, e, "C08_Panic")})

OnTeardown(s, e) == R([s EXCEPT !.teardown = TRUE], {})

OnQuiesce(s, e) ==
  \* everything drained in gated mode: whatever was queued must have been delivered
  R(s, (IF e.drained /\ s.q # <<>> THEN {V(s, e, "C06_Fifo")} ELSE {})
       \cup (IF e.drained /\ s.onerr /\ s.gotWerr # s.sentWerr THEN {V(s, e, "C04_ErrCbMissing")} ELSE {}))

OnFinal(s, e) ==
  R(s, (IF e.leaked > 0 THEN {V(s, e, "C08_Leak")} ELSE {})
       \cup (IF e.hung > 0 THEN {V(s, e, "C08_Hang")} ELSE {})
       \cup (IF s.pendPairs # {} THEN {V(s, e, "C05_PairMismatch")} ELSE {}))

Handle(s, e) ==
  CASE e.ev = "init"            -> OnInit(s, e)
    [] e.ev = "config"          -> OnConfig(s, e)
    [] e.ev = "verify"          -> OnVerify(s, e)
    [] e.ev = "call"            -> OnCall(s, e)
    [] e.ev = "ret"             -> OnRet(s, e)
    [] e.ev = "view"            -> OnView(s, e)
    [] e.ev = "events.recv"     -> OnEventsRecv(s, e)
    [] e.ev = "mon.select"      -> OnMonSelect(s, e)
    [] e.ev = "mon.recv"        -> OnMonRecv(s, e)
    [] e.ev = "mon.rejected"    -> OnMonRejected(s, e)
    [] e.ev = "mon.store"       -> OnMonStore(s, e)
    [] e.ev = "mon.submit"      -> OnMonSubmit(s, e)
    [] e.ev = "mon.enable"      -> OnMonEnable(s, e)
    [] e.ev = "mon.exited"      -> OnMonExited(s, e)
    [] e.ev = "api.submit.sent" -> OnApiSubmitSent(s, e)
    [] e.ev = "api.ctl.sent"    -> OnApiCtlSent(s, e)
    [] e.ev = "cb.idle"         -> OnCbIdle(s, e)
    [] e.ev = "cb.recv"         -> OnCbRecv(s, e)
    [] e.ev = "cbenter"         -> OnCbEnter(s, e)
    [] e.ev = "cbexit"          -> OnCbExit(s, e)
    [] e.ev = "cb.exited"       -> OnCbExited(s, e)
    [] e.ev = "cancel"          -> OnCancel(s, e)
    [] e.ev = "fresh"           -> OnFresh(s, e)
    [] e.ev = "anomaly"         -> OnAnomaly(s, e)
    [] e.ev = "panic"           -> OnPanic(s, e)
    [] e.ev = "teardown"        -> OnTeardown(s, e)
    [] e.ev = "quiesce"         -> OnQuiesce(s, e)
    [] e.ev = "final"           -> OnFinal(s, e)
    [] OTHER                    -> R(s, {})

Blank0 == [sc |-> "", mode |-> "gated", skip |-> FALSE, delay |-> FALSE, suppress |-> FALSE, onnew |-> FALSE,
           onerr |-> FALSE, nsrc |-> 0, defx |-> 0, defy |-> 0]

Init == l = 1 /\ st = Fresh(Blank0) /\ viol = {}

Next ==
  /\ l <= Len(Log)
  /\ LET e == Log[l] IN
     IF e.ev = "begin"
     THEN st' = Fresh(e) /\ viol' = viol
     ELSE LET r == Handle(st, e) IN st' = r.s /\ viol' = viol \cup r.v
  /\ l' = l + 1

Spec == Init /\ [][Next]_vars

\* TLC prints the verdict when the whole log has been consumed.
Report == l = Len(Log) + 1 => PrintT(<<"OBSERVER", Len(Log), ToJson(viol)>>)
Done == l = Len(Log) + 1
=============================================================================
