------------------------------- MODULE Stack -------------------------------
(***************************************************************************)
(* Stacking (overlay.go, deep_copy.go, ptrify): type shapes, pointerified  *)
(* layers, the overlay algorithm as written (two index walks that must     *)
(* apply the same omission rule) and, separately, the property-level       *)
(* oracle "each leaf = value of the last layer that set it, else the       *)
(* default; nested structs merge field by field; slices, maps, arrays,     *)
(* user pointers and text-unmarshalable values are replaced as a whole;    *)
(* skipped fields keep their default".                                     *)
(*                                                                         *)
(* A behaviour: choose a shape and defaults, then apply layers one by one. *)
(* TLC checks Overlay = Expect after every layer for the whole bounded     *)
(* universe and emits every case (shape, defaults, layers, expected result *)
(* after each prefix of the layers) for replay against the real compose.   *)
(***************************************************************************)
EXTENDS Naturals, Sequences, FiniteSets, TLC, Json

CONSTANTS MaxFields, MaxLayers,
          LeafKinds,        \* subset of {"int","str","dur","time","slice","map","arr","pint","parr"} (parr: an array of pointers, pkmap: a map keyed by pointers, mmap: a map of maps, pslice: a pointer to a slice)
          SkipKinds,        \* subset of {"dash","dashref","chan","func","unexp"} (dashref: a dials:"-" field holding a reference)
          StructKinds,      \* subset of {"struct","pstruct","emb"}
          InnerShapes,      \* shapes of nested structs
          SampleN,          \* emit one case in SampleN (1: all)
          BUG_IndexDrift,   \* the overlay walk forgets to skip func fields
          BUG_PtrMerge      \* a set user pointer over a non-nil one is treated as a struct merge (pre-fix behaviour: panic)

Nilable == {"slice", "map", "pint", "pkmap", "mmap", "pslice"}       \* pkmap: a map keyed by pointers, mmap: a map of maps
TopFields == [k : LeafKinds \cup SkipKinds] \cup {[k |-> sk, sub |-> s] : sk \in StructKinds, s \in InnerShapes}

Nil == [t |-> "nil"]
Keep == [t |-> "keep"]
Unset == [t |-> "unset"]
Zero == [t |-> "zero"]
Id(x) == [t |-> "id", v |-> x]          \* the value layer x gave this leaf (0: the caller's default)
Empty(x) == [t |-> "empty", v |-> x]    \* set, but an empty slice / map
SetZero(x) == [t |-> "szero", v |-> x]  \* set by layer x, explicitly, to the zero value of its type (zero time, 0, "")
St(s) == [t |-> "st", f |-> s]
IsStruct(f) == f.k \in {"struct", "pstruct", "emb"}
Skipped(f)  == f.k \in {"dash", "dashref", "chan", "func", "unexp"}
SkippedByOverlay(f) == IF BUG_IndexDrift THEN f.k \in {"dash", "dashref", "chan", "unexp"} ELSE Skipped(f)

RECURSIVE SeqsUpTo(_, _)
SeqsUpTo(S, n) == IF n = 0 THEN {<<>>} ELSE LET r == SeqsUpTo(S, n - 1) IN r \cup {Append(q, x) : q \in r, x \in S}
Shapes == {s \in SeqsUpTo(TopFields, MaxFields) : Len(s) >= 1}

(* ------------------------------- values -------------------------------- *)
RECURSIVE DefaultsOf(_)
DefaultsOf(shape) ==
  IF shape = <<>> THEN {<<>>}
  ELSE LET f == shape[1]
           rest == DefaultsOf(Tail(shape))
           mine == CASE Skipped(f) -> {Keep}
                     [] f.k \in Nilable -> {Nil, Id(0)}
                     [] f.k \in LeafKinds -> {Zero, Id(0)}
                     [] f.k \in {"struct", "emb"} -> {St(d) : d \in DefaultsOf(f.sub)}
                     [] f.k = "pstruct" -> {Nil} \cup {St(d) : d \in DefaultsOf(f.sub)}
       IN {<<m>> \o r : m \in mine, r \in rest}

RECURSIVE ZeroOf(_)
ZeroOf(shape) == [i \in 1..Len(shape) |->
                    LET f == shape[i] IN
                    CASE Skipped(f) -> Zero [] f.k \in Nilable -> Nil [] f.k \in LeafKinds -> Zero
                      [] f.k \in {"struct", "emb"} -> St(ZeroOf(f.sub)) [] f.k = "pstruct" -> Nil]

\* pointerified shape: skipped fields are gone
RECURSIVE Ptrify(_)
Ptrify(shape) == IF shape = <<>> THEN <<>>
                 ELSE LET f == shape[1] IN
                      IF Skipped(f) THEN Ptrify(Tail(shape))
                      ELSE <<IF IsStruct(f) THEN [k |-> f.k, sub |-> Ptrify(f.sub)] ELSE f>> \o Ptrify(Tail(shape))

RECURSIVE LayersOf(_, _)
LayersOf(pshape, id) ==     \* the values a source may return for a pointerified shape
  IF pshape = <<>> THEN {<<>>}
  ELSE LET f == pshape[1]
           rest == LayersOf(Tail(pshape), id)
           mine == IF IsStruct(f) THEN {Unset} \cup {St(l) : l \in LayersOf(f.sub, id)}
                   ELSE IF f.k \in {"slice", "map", "pkmap", "mmap"} THEN {Unset, Id(id), Empty(id)}
                   ELSE IF f.k \in {"int", "str", "time"} THEN {Unset, Id(id), SetZero(id)}
                   ELSE {Unset, Id(id)}
       IN {<<m>> \o r : m \in mine, r \in rest}

(* ------------------ the algorithm, mirroring overlay.go ----------------- *)
RECURSIVE OverlayStruct(_, _, _, _, _)
OverlayField(f, b, l) ==
  IF l = Unset THEN b
  ELSE CASE f.k \in {"struct", "emb"} -> St(OverlayStruct(f.sub, b.f, l.f, 1, 1))
         [] f.k = "pstruct" -> St(OverlayStruct(f.sub, IF b = Nil THEN ZeroOf(f.sub) ELSE b.f, l.f, 1, 1))
         [] f.k = "pint" /\ BUG_PtrMerge /\ b # Nil -> [t |-> "panic"]
         [] OTHER -> l
\* i walks the fields of the base struct, j those of the pointerified layer
OverlayStruct(shape, base, layer, i, j) ==
  IF i > Len(shape) THEN base
  ELSE IF SkippedByOverlay(shape[i]) THEN OverlayStruct(shape, base, layer, i + 1, j)
  ELSE IF j > Len(layer) THEN [base EXCEPT ![i] = [t |-> "oob"]]
  ELSE OverlayStruct(shape, [base EXCEPT ![i] = IF Skipped(shape[i]) THEN [t |-> "clobbered"] ELSE OverlayField(shape[i], base[i], layer[j])],
                     layer, i + 1, j + 1)

(* --------- the property-level oracle, free of index bookkeeping --------- *)
RECURSIVE Expect(_, _, _, _)
Expect(shape, base, player, j) ==   \* player is aligned with Ptrify(shape); j indexes it
  IF shape = <<>> THEN <<>>
  ELSE LET f == shape[1] IN
       IF Skipped(f) THEN <<base[1]>> \o Expect(Tail(shape), Tail(base), player, j)
       ELSE LET l == player[j]
                v == IF l = Unset THEN base[1]
                     ELSE CASE f.k \in {"struct", "emb"} -> St(Expect(f.sub, base[1].f, l.f, 1))
                            [] f.k = "pstruct" -> St(Expect(f.sub, IF base[1] = Nil THEN ZeroOf(f.sub) ELSE base[1].f, l.f, 1))
                            [] OTHER -> l
            IN <<v>> \o Expect(Tail(shape), Tail(base), player, j + 1)

VARIABLES shape, defaults, layers, cur, wants
vars == <<shape, defaults, layers, cur, wants>>

Init == /\ shape \in Shapes
        /\ defaults \in DefaultsOf(shape)
        /\ layers = <<>> /\ cur = defaults /\ wants = <<defaults>>

Apply == /\ Len(layers) < MaxLayers
         /\ \E l \in LayersOf(Ptrify(shape), Len(layers) + 1) :
              /\ layers' = Append(layers, l)
              /\ cur' = OverlayStruct(shape, cur, l, 1, 1)
              /\ wants' = Append(wants, Expect(shape, wants[Len(wants)], l, 1))
         /\ UNCHANGED <<shape, defaults>>
Next == Apply
Spec == Init /\ [][Next]_vars

\* C01 on the specification: the algorithm as written computes the last-set-wins result
LastSetWins == cur = wants[Len(wants)]
\* a layer that sets nothing changes nothing
AllUnset(l) == \A i \in 1..Len(l) : l[i] = Unset
EmptyLayerIsIdentity == [][(Len(layers') > Len(layers) /\ AllUnset(layers'[Len(layers')])) => cur' = cur]_vars

Emit == (Len(layers) = MaxLayers /\ (SampleN = 1 \/ RandomElement(1..SampleN) = 1)) => PrintT(<<"CASE", ToJson([shape |-> shape, defaults |-> defaults, layers |-> layers, wants |-> wants])>>)
=============================================================================
