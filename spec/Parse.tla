-------------------------------- MODULE Parse --------------------------------
(***************************************************************************)
(* Text parsing (package parse and the flag helpers): the case analysis of  *)
(*  - the range rule: a numeric literal is accepted iff it lies within the  *)
(*    target type's range.  TLC integers are 32-bit, so a literal is given   *)
(*    symbolically as (boundary, offset) and the rule is stated on that;     *)
(*  - the round trip: parsing the canonical text form of a value returns     *)
(*    that value, for scalars at their extremes and for slices, sets, string *)
(*    maps and string-to-string-slice maps whose elements are drawn from     *)
(*    character classes (plain, comma, colon, quotes, backslash, whitespace, *)
(*    control, non-ASCII, empty, back-quote).                                *)
(* TLC enumerates the cases completely up to the bounds and emits them; the  *)
(* Go driver concretises literals (math/big) and class members (seeded).     *)
(***************************************************************************)
EXTENDS Naturals, Integers, Sequences, FiniteSets, TLC, Json

CONSTANTS IntKinds, UintKinds, FloatKinds, Formats, Classes, MaxElems, SampleN

Boundaries == {"min", "max", "zero"}
Offsets == {-1, 0, 1}

\* the range rule
InRange(kind, b, off) ==
  CASE b = "min" -> off >= 0
    [] b = "max" -> off <= 0
    [] b = "zero" -> IF kind \in UintKinds THEN off >= 0 ELSE TRUE

\* formats that apply: unsigned kinds have no sign; floats only decimal / exponent forms
FormatOK(kind, f, ctx) ==
  /\ (kind \in {"float32", "float64"} => f \in {"dec"})
  /\ (kind \in {"complex64", "complex128"} => f \in {"dec", "hex"})      \* hex stands for "the literal is the imaginary part"
  /\ (f = "ws" => ctx = "slice")
  /\ (f \in {"fdot", "fexp"} => kind \in IntKinds \cup UintKinds /\ ctx = "string")   \* integers written in float notation: may be rejected, never wrapped
RangeCases == {[fam |-> "range", kind |-> k, b |-> b, off |-> o, fmt |-> f, ctx |-> c, accept |-> InRange(k, b, o)] :
                 k \in IntKinds \cup UintKinds \cup FloatKinds, b \in Boundaries, o \in Offsets, f \in Formats, c \in {"string", "slice"}}
GoodRange == {c \in RangeCases : FormatOK(c.kind, c.fmt, c.ctx) /\ ~(c.kind \in FloatKinds /\ c.ctx = "slice")
                                 /\ ~(c.kind \in UintKinds /\ c.b = "min" /\ c.off = -1 /\ FALSE)}

RECURSIVE SeqsUpTo(_, _)
SeqsUpTo(S, n) == IF n = 0 THEN {<<>>} ELSE LET r == SeqsUpTo(S, n - 1) IN r \cup {Append(q, x) : q \in r, x \in S}
Colls == {"slice", "set", "map", "mapslice"}
\* a set has no duplicate members; map keys are distinct: the driver concretises each position to a distinct member of its class
TripCases == {[fam |-> "trip", coll |-> c, elems |-> e] : c \in Colls, e \in SeqsUpTo(Classes, MaxElems)}

\* integer slices made of the extremes of their element type: what the integer-slice flag helpers print must parse back
IntTripCases == {[fam |-> "inttrip", kind |-> k, elems |-> e] : k \in IntKinds \cup UintKinds,
                   e \in SeqsUpTo({"min", "max", "zero", "one", "minusone"}, 2) \ {<<>>}}

ScalarKinds == IntKinds \cup UintKinds \cup FloatKinds \cup {"bool", "string", "duration", "complex64", "complex128"}
ScalarCases == {[fam |-> "scalar", kind |-> k, which |-> w] : k \in ScalarKinds, w \in {"min", "max", "zero", "one", "minusone", "tiny", "inf"}}

VARIABLE c
Init == c \in GoodRange \cup TripCases \cup ScalarCases \cup IntTripCases
Next == UNCHANGED c
Spec == Init /\ [][Next]_c

\* sanity of the rule itself: exactly the literals one step outside a bound are rejected
RuleSane == c.fam = "range" => (c.accept <=> ~((c.b = "min" /\ c.off = -1) \/ (c.b = "max" /\ c.off = 1) \/ (c.kind \in UintKinds /\ c.b = "zero" /\ c.off = -1)))

Emit == (c.fam # "trip" \/ SampleN = 1 \/ RandomElement(1..SampleN) = 1) => PrintT(<<"CASE", ToJson(c)>>)
=============================================================================
