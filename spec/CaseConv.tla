------------------------------ MODULE CaseConv ------------------------------
(***************************************************************************)
(* Character-level reference definitions of the six paired casing schemes  *)
(* (tagformat/caseconversion) over words built from the alphabet           *)
(* {a, b, 1}, and of Go-identifier decoding over a vocabulary of           *)
(* capitalised words and initialisms.  TLC checks on the reference         *)
(* definitions that every scheme is invertible on lower-case alphanumeric  *)
(* words that do not start with a digit, and emits every word list with    *)
(* its reference encodings, and every identifier assembled from the        *)
(* vocabulary with its segmentation, for replay against the real code.     *)
(***************************************************************************)
EXTENDS Naturals, Sequences, FiniteSets, TLC, Json

CONSTANTS MaxWords, MaxLen, Letters, Digits,      \* e.g. {"a","b"}, {"1"}
          Vocab,                                  \* capitalised words and initialisms, e.g. {"User", "ID", "HTTP"}
          MaxItems

Chars == Letters \cup Digits
Up(c) == CASE c = "a" -> "A" [] c = "b" -> "B" [] c = "c" -> "C" [] OTHER -> c

RECURSIVE StringsUpTo(_)
StringsUpTo(n) == IF n = 0 THEN {""} ELSE LET r == StringsUpTo(n - 1) IN r \cup {s \o c : s \in r, c \in Chars}
Words == {w \in StringsUpTo(MaxLen) : Len(w) >= 1 /\ SubSeq(w, 1, 1) \in Letters}

RECURSIVE Map(_, _), Join(_, _)
UpperWord(w) == Map(w, 1)
Map(w, i) == IF i > Len(w) THEN "" ELSE Up(SubSeq(w, i, i)) \o Map(w, i + 1)
Capital(w) == Up(SubSeq(w, 1, 1)) \o SubSeq(w, 2, Len(w))
Join(ws, sep) == IF ws = <<>> THEN "" ELSE IF Len(ws) = 1 THEN ws[1] ELSE ws[1] \o sep \o Join(Tail(ws), sep)
MapSeq(ws, F(_)) == [i \in 1..Len(ws) |-> F(ws[i])]

EncUpperCamel(ws) == Join(MapSeq(ws, Capital), "")
EncLowerCamel(ws) == ws[1] \o Join(MapSeq(Tail(ws), Capital), "")
EncLowerSnake(ws) == Join(ws, "_")
EncUpperSnake(ws) == Join(MapSeq(ws, UpperWord), "_")
EncKebab(ws) == Join(ws, "-")
EncPreservingSnake(ws) == Join(ws, "_")

\* reference decoders: split at the separator / before every upper-case letter, lower-case everything
IsUpper(c) == c \in {"A", "B", "C"}
Low(c) == CASE c = "A" -> "a" [] c = "B" -> "b" [] c = "C" -> "c" [] OTHER -> c
RECURSIVE SplitSep(_, _, _, _), SplitCamel(_, _, _)
SplitSep(s, sep, i, cur) ==
  IF i > Len(s) THEN <<cur>>
  ELSE LET c == SubSeq(s, i, i) IN
       IF c = sep THEN <<cur>> \o SplitSep(s, sep, i + 1, "") ELSE SplitSep(s, sep, i + 1, cur \o Low(c))
SplitCamel(s, i, cur) ==
  IF i > Len(s) THEN <<cur>>
  ELSE LET c == SubSeq(s, i, i) IN
       IF IsUpper(c) /\ cur # "" THEN <<cur>> \o SplitCamel(s, i + 1, Low(c)) ELSE SplitCamel(s, i + 1, cur \o Low(c))

VARIABLES ws, items
vars == <<ws, items>>

RECURSIVE SeqsUpTo(_, _)
SeqsUpTo(S, n) == IF n = 0 THEN {<<>>} ELSE LET r == SeqsUpTo(S, n - 1) IN r \cup {Append(q, x) : q \in r, x \in S}

Init == \/ ws \in {q \in SeqsUpTo(Words, MaxWords) : Len(q) >= 1} /\ items = <<>>
        \/ ws = <<>> /\ items \in {q \in SeqsUpTo(Vocab, MaxItems) : Len(q) >= 1}
Next == UNCHANGED vars
Spec == Init /\ [][Next]_vars

\* C19 on the reference definitions: each scheme is invertible on these word lists
Invertible ==
  ws # <<>> =>
    /\ SplitCamel(EncUpperCamel(ws), 1, "") = ws
    /\ SplitCamel(EncLowerCamel(ws), 1, "") = ws
    /\ SplitSep(EncLowerSnake(ws), "_", 1, "") = ws
    /\ SplitSep(EncUpperSnake(ws), "_", 1, "") = ws
    /\ SplitSep(EncKebab(ws), "-", 1, "") = ws
    /\ SplitSep(EncPreservingSnake(ws), "_", 1, "") = ws

Emit ==
  IF ws # <<>>
  THEN PrintT(<<"CASE", ToJson([kind |-> "words", words |-> ws,
                                 enc |-> [upperCamel |-> EncUpperCamel(ws), lowerCamel |-> EncLowerCamel(ws), lowerSnake |-> EncLowerSnake(ws),
                                          upperSnake |-> EncUpperSnake(ws), kebab |-> EncKebab(ws), preservingSnake |-> EncPreservingSnake(ws)]])>>)
  ELSE PrintT(<<"CASE", ToJson([kind |-> "goident", items |-> items, name |-> Join(items, "")])>>)
=============================================================================
