------------------------------- MODULE Delay -------------------------------
(***************************************************************************)
(* Delayed verification and the suppression of global callbacks (C09) as a  *)
(* sequential machine over the options                                      *)
(*   Delay    = Params.DelayInitialVerification                             *)
(*   Suppress = Params.CallGlobalCallbacksAfterVerificationEnabled          *)
(* and the operations of one watching source and one client:                *)
(*   val    : the source reports a (valid) value with a blocking report     *)
(*   err    : the source reports an error                                   *)
(*   enable : the client calls EnableVerification                           *)
(* Whether the config type has a Verify method at all (Verifiable) must not  *)
(* matter for the suppression: a type without one verifies trivially.        *)
(* The interleavings of these operations with the monitor are the subject   *)
(* of Dials.tla; here every history up to MaxOps is enumerated with the     *)
(* expected delivery of each global callback and executed against the real  *)
(* library for config types with and without a Verify method.               *)
(***************************************************************************)
EXTENDS Naturals, Sequences, TLC, Json

CONSTANTS MaxOps,
          BUG_NoDelayWithoutVerify   \* a seeded mistake: the delay is not in force for types without a Verify method

VARIABLES delay, suppress, verifiable, skip, hist
vars == <<delay, suppress, verifiable, skip, hist>>

Init == /\ delay \in BOOLEAN /\ suppress \in BOOLEAN /\ verifiable \in BOOLEAN
        /\ skip = (delay /\ (verifiable \/ ~BUG_NoDelayWithoutVerify))
        /\ hist = <<>>

Withheld == skip /\ suppress
Rec(op, delivered, ok) == [op |-> op, delivered |-> delivered, ok |-> ok, skip |-> skip']

Val == /\ UNCHANGED skip /\ hist' = Append(hist, Rec("val", ~Withheld, TRUE))      \* installed; OnNewConfig unless withheld
Err == /\ UNCHANGED skip /\ hist' = Append(hist, Rec("err", ~Withheld, TRUE))      \* OnWatchedError unless withheld
\* EnableVerification succeeds (every value in these histories is valid) and ends the delay; without a delay it reports an error
Enable == /\ skip' = FALSE
          /\ hist' = Append(hist, Rec("enable", FALSE, TRUE))

Next == Len(hist) < MaxOps /\ (Val \/ Err \/ Enable) /\ UNCHANGED <<delay, suppress, verifiable>>
Spec == Init /\ [][Next]_vars

\* C09: global callbacks are withheld only while the delay is in force and the option is set
WithheldOnlyWhile ==
  \A i \in 1..Len(hist) : (hist[i].op \in {"val", "err"} /\ ~hist[i].delivered) => (delay /\ suppress)
\* ... and once verification was enabled they are delivered in every case
DeliveredAfterEnable ==
  \A i, j \in 1..Len(hist) : (i < j /\ hist[i].op = "enable" /\ hist[j].op \in {"val", "err"}) => hist[j].delivered
\* the suppression does not depend on whether the type has a Verify method
IndependentOfVerifiable == (delay /\ suppress /\ hist # <<>> /\ hist[1].op \in {"val", "err"}) => ~hist[1].delivered

Emit == hist = <<>> \/ PrintT(<<"CASE", ToJson([delay |-> delay, suppress |-> suppress, verifiable |-> verifiable, hist |-> hist])>>)
=============================================================================
