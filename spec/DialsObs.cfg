SPECIFICATION Spec
CONSTANT LogFile = "trace.ndjson"
INVARIANT Report
CHECK_DEADLOCK FALSE
