----------------------------- MODULE KernelData -----------------------------
(***************************************************************************)
(* Data model shared by the kernel specification (Dials.tla) and the       *)
(* observer (DialsObs.tla): the scenario config type has two integer       *)
(* leaves x and y; a source value sets a leaf iff its entry is non-zero;   *)
(* a value with u = TRUE cannot be stacked; a leaf value v with            *)
(* v % 10 = 9 makes Verify fail.                                           *)
(***************************************************************************)
EXTENDS Naturals, Integers, Sequences, TLC

Bad(v) == v % 10 = 9
ValidXY(x, y) == ~Bad(x) /\ ~Bad(y)

MaxOf(S) == CHOOSE m \in S : \A k \in S : k <= m

\* last source (in Config argument order) that sets the leaf wins, else the default
LastX(sv, d) == LET S == {i \in DOMAIN sv : sv[i].x # 0} IN IF S = {} THEN d ELSE sv[MaxOf(S)].x
LastY(sv, d) == LET S == {i \in DOMAIN sv : sv[i].y # 0} IN IF S = {} THEN d ELSE sv[MaxOf(S)].y

Stack(def, sv) == [x |-> LastX(sv, def.x), y |-> LastY(sv, def.y)]
StackableAll(sv) == \A i \in DOMAIN sv : ~sv[i].u

RepOf(src) == "r" \o ToString(src)
=============================================================================
