SPECIFICATION Spec
CONSTANTS
  NSrc = 1
  InitVal <- Init1
  Vals <- ValsGood1
  Def <- Def0
  Clients <- C1
  CbCap = 2
  MaxSerial = 3
  MaxRepOps = 3
  MaxCliOps = 3
  RepOps = {"val"}
  CliOps = {"view","reg","unreg"}
  AllowRepCancel = FALSE
  AllowCliCancel = FALSE
  AllowCancel = FALSE
  BlockingCbs = FALSE
  Skip = FALSE
  Delay = FALSE
  Suppress = FALSE
  OnNew = TRUE
  OnErr = FALSE
  BUG_CloseCbq = FALSE
  BUG_UnregCap = FALSE
  BUG_SrcErrSuppress = FALSE
  BUG_StoreBeforeVerify = FALSE
  BUG_FilterGT = FALSE
  BUG_CatchupLE = FALSE
  BUG_ReplyBeforeStore = FALSE
  BUG_SerialPlus2 = FALSE
  BUG_NoSlotUpdate = FALSE
VIEW View
CHECK_DEADLOCK FALSE
INVARIANTS TypeOK C04_VisibleVerified C04_InstalledVerified C04_ErrArgs C05_SerialCountsInstalls C05_ViewIsFreshStack
  C06_NoStale C06_OldIsPred C06_NoSkip C06_NoCallAfterUnreg C06_CatchUpIff C06_GlobalInOrder
  C07_NilMeansInstalled C07_ErrMeansNotInstalled C08_NoCrash C08_LateCallsFail C09_NoVerifyBeforeEnable C09_WithheldOnlyWhileDelayed
PROPERTIES C04_RejectInstallsNothing C05_SerialStep C09_EnableVerifiesInstalled C09_VerifiedWhenNotDelayed
