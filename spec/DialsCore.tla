------------------------------ MODULE DialsCore ------------------------------
(***************************************************************************)
(* The install path of the monitor reduced to what three invariants need,   *)
(* typed for Apalache so that they can be shown inductive for serials and   *)
(* histories of any length (TLC checks the full kernel, Dials.tla, only up  *)
(* to small bounds):                                                        *)
(*   VisibleVerified : while verification is active the installed config    *)
(*                     passes Verify                                         *)
(*   FreshOrLastGood : the installed config is the stack of the defaults    *)
(*                     and the latest value of every source, unless that     *)
(*                     stack is invalid (then an earlier, valid one stays)   *)
(*   SerialCounts    : the serial equals the number of installs             *)
(* One leaf; value 0 = unset; a value v with v % 10 = 9 fails Verify.        *)
(***************************************************************************)
EXTENDS Integers

CONSTANTS
  \* @type: Set(Int);
  Vals,
  \* @type: Int;
  Def,
  \* @type: Bool;
  BUG_NoVerify    \* a seeded mistake (self-test): re-stacks are installed without being verified

VARIABLES
  \* @type: Int;
  s1,           \* latest value received from source 1 (0: sets nothing)
  \* @type: Int;
  s2,           \* latest value received from source 2 (stacked over source 1)
  \* @type: Int;
  viewX,        \* the leaf of the installed config
  \* @type: Int;
  serial,
  \* @type: Int;
  installs,     \* history: number of installs since Config
  \* @type: Bool;
  skipVerify    \* DelayInitialVerification in force

Bad(v) == v % 10 = 9
Stack(a, b) == IF b # 0 THEN b ELSE IF a # 0 THEN a ELSE Def

ConstInit == Vals = {0, 1, 2, 9, 19} /\ Def \in {1, 9} /\ BUG_NoVerify = FALSE
ConstInitBug == Vals = {0, 1, 2, 9, 19} /\ Def \in {1, 9} /\ BUG_NoVerify = TRUE

Init ==
  /\ s1 \in Vals /\ s2 \in Vals
  /\ skipVerify \in BOOLEAN
  /\ viewX = Stack(s1, s2)
  /\ (~skipVerify => ~Bad(viewX))         \* Config fails otherwise
  /\ serial = 0 /\ installs = 0

\* the monitor receives a value from a source, re-stacks, verifies, installs or rejects
Report(src, v) ==
  LET n1 == IF src = 1 THEN v ELSE s1
      n2 == IF src = 2 THEN v ELSE s2
      x == Stack(n1, n2)
  IN /\ s1' = n1 /\ s2' = n2
     /\ IF ~skipVerify /\ Bad(x) /\ ~BUG_NoVerify
        THEN UNCHANGED <<viewX, serial, installs>>
        ELSE viewX' = x /\ serial' = serial + 1 /\ installs' = installs + 1
     /\ UNCHANGED skipVerify

\* EnableVerification: verifies exactly the installed config; failure keeps the delay
Enable ==
  /\ skipVerify
  /\ skipVerify' = Bad(viewX)
  /\ UNCHANGED <<s1, s2, viewX, serial, installs>>

Next == (\E src \in {1, 2}, v \in Vals : Report(src, v)) \/ Enable

\* ------------------------------------------------------------------------
TypeOK == s1 \in Vals /\ s2 \in Vals /\ viewX \in Vals \union {Def} /\ serial \in Int /\ installs \in Int /\ skipVerify \in BOOLEAN
VisibleVerified == ~skipVerify => ~Bad(viewX)
FreshOrLastGood == viewX = Stack(s1, s2) \/ (~skipVerify /\ Bad(Stack(s1, s2)))
SerialCounts == serial = installs /\ serial >= 0

IndInv == TypeOK /\ VisibleVerified /\ FreshOrLastGood /\ SerialCounts
\* all states satisfying the invariant, for the inductive step (serial is any integer)
IndInit ==
  /\ s1 \in Vals /\ s2 \in Vals /\ viewX \in Vals \union {Def}
  /\ serial \in Int /\ installs \in Int /\ skipVerify \in BOOLEAN
  /\ IndInv
=============================================================================
