------------------------------ MODULE MCDials ------------------------------
(* Bounded configurations of Dials.tla, one per property family. *)
EXTENDS Dials

V(x, y) == [x |-> x, y |-> y, u |-> FALSE]
VU == [x |-> 0, y |-> 0, u |-> TRUE]

Def0 == [x |-> 1, y |-> 2]
Init1 == <<V(11, 0)>>
Init2 == <<V(11, 0), V(0, 21)>>

\* value alphabets
ValsGood1 == {V(12, 0), V(13, 0)}
ValsGoodBad == {V(12, 0), V(19, 0)}
ValsAll == {V(12, 0), V(19, 0), VU}
ValsXY == {V(12, 0), V(0, 24), V(19, 0)}

C1 == {1}
C2 == {1, 2}

\* state constraint used only to keep histories finite where the operation counters do not already do so
Bounded == Len(verifyLog) <= 8 /\ Len(errLog) <= 6 /\ Len(gcbLog) <= 6 /\ Len(withheld) <= 6

\* the view hides pure bookkeeping that does not influence behaviour or properties
View == <<sysVars, obsVars>>
=============================================================================
