----------------------------- MODULE FileWatch -----------------------------
(***************************************************************************)
(* The file watcher (sources/file/file.go watchLoop) together with the     *)
(* file system and fsnotify as observed on this kernel (DESIGN.md 4.4),    *)
(* and an abstract monitor.  Two layouts:                                  *)
(*   "direct": the watched path is a regular file; the environment acts    *)
(*             through individual syscalls (truncate, write, write a temp  *)
(*             file, rename it over the path, unlink, create), so the      *)
(*             watcher's reads interleave between them;                    *)
(*   "k8s":    the path is a symlink into a directory reached through a    *)
(*             second symlink that is swapped atomically (Kubernetes       *)
(*             AtomicWriter); the environment swaps and rewrites in place. *)
(* One LoopWake = one iteration of the loop: dequeue an event, read and    *)
(* decode the file, repair the watch set, report.                          *)
(***************************************************************************)
EXTENDS Naturals, Sequences, FiniteSets, TLC, Json

CONSTANTS Layout, MaxOps, Good, Bad,
          BUG_NoDirWatch,        \* events from the directory watch are lost
          BUG_NoCsumCheck,       \* unchanged content is reported again
          BUG_NoDirWatchUpdate,  \* k8s: the watch on the resolved directory is not moved after a swap
          RecheckAfterRearm,     \* the loop reads again after it changed its watch set (the repaired behaviour)
          SampleN                \* emit one history in SampleN (1: all)

\* contents: Good decode and verify, Bad decode but fail Verify, "empty" and "junk" do not decode
Contents == Good \cup Bad \cup {"empty", "junk"}
Decodes(c) == c \in Good \cup Bad

VARIABLES
  link,       \* inode / directory the path resolves to, 0 when the path does not exist
  content,    \* [inode -> content]
  nextInode, tmp,
  fileWatch,  \* inode carrying the file watch, 0 when none
  dirWatch,   \* k8s: directory carrying the resolved-directory watch
  evq,        \* pending fsnotify events that pass the loop's name filter
  loop,       \* [watchingFile, last] ; last = last recorded checksum (a content id)
  view, lastGood, errs, versions,
  ops, hist   \* environment operations performed
vars == <<link, content, nextInode, tmp, fileWatch, dirWatch, evq, loop, view, lastGood, errs, versions, ops, hist>>

Init ==
  /\ link = 1 /\ nextInode = 2 /\ tmp = 0
  /\ content = [i \in 1..(2 + 2 * MaxOps) |-> IF i = 1 THEN "g0" ELSE "empty"]
  /\ fileWatch = 1 /\ dirWatch = 1 /\ evq = <<>>
  /\ loop = [pc |-> "wait", watchingFile |-> TRUE, last |-> "g0", recheck |-> FALSE, rlink |-> 1, rc |-> "g0"]
  /\ view = "g0" /\ lastGood = "g0" /\ errs = 0 /\ versions = 0
  /\ ops = 0 /\ hist = <<>>

Push(es) == evq' = evq \o es
\* mid: the operation lands between a read of the watch loop and the re-arming that follows it
Did(op, c) == ops' = ops + 1 /\ hist' = Append(hist, [op |-> op, c |-> c, mid |-> (loop.pc = "rearm")])
WriteEvents(i) == (IF fileWatch = i THEN <<"WRITE">> ELSE <<>>) \o (IF link = i /\ ~BUG_NoDirWatch THEN <<"WRITE">> ELSE <<>>)

\* ----- direct layout: the individual syscalls -----
EnvTrunc ==
  /\ Layout = "direct" /\ ops < MaxOps /\ link # 0
  /\ content' = [content EXCEPT ![link] = "empty"]
  /\ Push(WriteEvents(link)) /\ Did("trunc", "empty")
  /\ UNCHANGED <<link, nextInode, tmp, fileWatch, dirWatch, loop, view, lastGood, errs, versions>>
EnvWrite(c) ==
  /\ Layout = "direct" /\ ops < MaxOps /\ link # 0
  /\ content' = [content EXCEPT ![link] = c]
  /\ Push(WriteEvents(link)) /\ Did("write", c)
  /\ UNCHANGED <<link, nextInode, tmp, fileWatch, dirWatch, loop, view, lastGood, errs, versions>>
EnvTmp(c) ==
  /\ Layout = "direct" /\ ops < MaxOps /\ tmp = 0
  /\ tmp' = nextInode /\ nextInode' = nextInode + 1
  /\ content' = [content EXCEPT ![nextInode] = c]
  /\ Did("tmp", c)                  \* events on the temp name are filtered out by the loop
  /\ UNCHANGED <<link, fileWatch, dirWatch, evq, loop, view, lastGood, errs, versions>>
EnvRenameOver ==
  /\ Layout = "direct" /\ ops < MaxOps /\ tmp # 0
  /\ link' = tmp /\ tmp' = 0
  /\ Push((IF BUG_NoDirWatch THEN <<>> ELSE <<"CREATE">>) \o (IF fileWatch = link /\ link # 0 THEN <<"CHMOD">> ELSE <<>>))
  /\ fileWatch' = IF fileWatch = link THEN 0 ELSE fileWatch      \* the old inode dies, its watch with it
  /\ Did("rename", content[tmp])
  /\ UNCHANGED <<content, nextInode, dirWatch, loop, view, lastGood, errs, versions>>
EnvUnlink ==
  /\ Layout = "direct" /\ ops < MaxOps /\ link # 0
  /\ link' = 0
  /\ Push(IF BUG_NoDirWatch THEN <<>> ELSE <<"REMOVE">>)
  /\ fileWatch' = IF fileWatch = link THEN 0 ELSE fileWatch
  /\ Did("unlink", "")
  /\ UNCHANGED <<content, nextInode, tmp, dirWatch, loop, view, lastGood, errs, versions>>
EnvCreate ==
  /\ Layout = "direct" /\ ops < MaxOps /\ link = 0
  /\ link' = nextInode /\ nextInode' = nextInode + 1
  /\ content' = [content EXCEPT ![nextInode] = "empty"]
  /\ Push(IF BUG_NoDirWatch THEN <<>> ELSE <<"CREATE">>)
  /\ Did("create", "empty")
  /\ UNCHANGED <<tmp, fileWatch, dirWatch, loop, view, lastGood, errs, versions>>

\* ----- k8s layout -----
EnvSwap(c) ==          \* new timestamped directory with the file, ..dir symlink renamed over atomically
  /\ Layout = "k8s" /\ ops < MaxOps
  /\ link' = nextInode /\ nextInode' = nextInode + 1
  /\ content' = [content EXCEPT ![nextInode] = c]
  /\ Push(IF BUG_NoDirWatch THEN <<>> ELSE <<"CREATE">>)          \* seen through the watch on the path's own directory
  /\ Did("swap", c)
  /\ UNCHANGED <<tmp, fileWatch, dirWatch, loop, view, lastGood, errs, versions>>
EnvWriteInPlace(c) ==  \* the file inside the current target directory is rewritten
  /\ Layout = "k8s" /\ ops < MaxOps
  /\ content' = [content EXCEPT ![link] = c]
  \* the file watch sits on the inode it was added for; after a swap only the resolved-directory watch sees this write
  /\ Push((IF fileWatch = link THEN <<"WRITE">> ELSE <<>>) \o (IF dirWatch = link THEN <<"WRITE">> ELSE <<>>))
  /\ Did("writein", c)
  /\ UNCHANGED <<link, nextInode, tmp, fileWatch, dirWatch, loop, view, lastGood, errs, versions>>

\* ----- the watch loop: one iteration is two steps, as in the code -----
\*   LoopRead  : wake up (an event, or the re-check after re-arming), open + read + decode the file
\*   LoopRearm : repair the watch set (file watch, resolved-directory watch), then report what was read
\* The environment may act between the two: a change that lands after the read and before the re-arming is
\* seen by no watch; the loop therefore reads once more whenever the watch set changed (RecheckAfterRearm).
LoopRead ==
  /\ loop.pc = "wait" /\ (evq # <<>> \/ loop.recheck)
  /\ evq' = IF loop.recheck THEN evq ELSE Tail(evq)
  /\ loop' = [loop EXCEPT !.pc = "rearm", !.recheck = FALSE, !.rlink = link, !.rc = IF link = 0 THEN "absent" ELSE content[link]]
  /\ UNCHANGED <<link, content, nextInode, tmp, fileWatch, dirWatch, view, lastGood, errs, versions, ops, hist>>

LoopRearm ==
  /\ loop.pc = "rearm"
  /\ IF loop.rlink = 0 THEN      \* not-exist: drop the file watch, keep going
        /\ loop' = [loop EXCEPT !.pc = "wait", !.watchingFile = FALSE]
        /\ fileWatch' = IF loop.watchingFile THEN 0 ELSE fileWatch
        /\ UNCHANGED <<view, lastGood, errs, versions, dirWatch>>
     ELSE
        LET c == loop.rc
            rewatch == ~loop.watchingFile
            newDir == IF BUG_NoDirWatchUpdate \/ link = 0 THEN dirWatch ELSE link        \* updateDirWatches (resolves the path now)
            changed == (rewatch \/ newDir # dirWatch) /\ RecheckAfterRearm
            last2 == IF Decodes(c) /\ ~(c = loop.last /\ ~BUG_NoCsumCheck) THEN c ELSE loop.last
        IN
        /\ fileWatch' = IF rewatch /\ link # 0 THEN link ELSE fileWatch
        /\ dirWatch' = newDir
        /\ loop' = [loop EXCEPT !.pc = "wait", !.watchingFile = TRUE, !.last = last2, !.recheck = changed]
        /\ IF ~Decodes(c) THEN
              /\ errs' = errs + 1 /\ UNCHANGED <<view, lastGood, versions>>
           ELSE IF c = loop.last /\ ~BUG_NoCsumCheck THEN     \* unchanged checksum: swallowed
              UNCHANGED <<view, lastGood, errs, versions>>
           ELSE IF c \in Good THEN                            \* reported to the monitor and installed
              /\ view' = c /\ lastGood' = c /\ versions' = versions + 1 /\ UNCHANGED errs
           ELSE /\ errs' = errs + 1 /\ UNCHANGED <<view, lastGood, versions>>
  /\ UNCHANGED <<link, content, nextInode, tmp, evq, ops, hist>>

LoopWake == LoopRead \/ LoopRearm

Env == \/ EnvTrunc \/ EnvRenameOver \/ EnvUnlink \/ EnvCreate
       \/ \E c \in Contents \ {"empty"} : EnvWrite(c) \/ EnvTmp(c) \/ EnvSwap(c) \/ EnvWriteInPlace(c)
Next == Env \/ LoopWake
Spec == Init /\ [][Next]_vars /\ WF_vars(LoopWake)

Final == IF link = 0 THEN "absent" ELSE content[link]
Quiet == evq = <<>> /\ loop.pc = "wait" /\ ~loop.recheck
\* C17: once changes stop and the loop has drained its events, the view is the final good content, or the
\* last good one when the final content is absent / malformed / invalid (and then an error was reported)
ConvergedOK == (ops = MaxOps /\ Quiet) => IF Final \in Good THEN view = Final ELSE view = lastGood
ErrorReported == (ops = MaxOps /\ Quiet /\ Final \in Bad \cup {"junk"} /\ Final # loop.last) => errs > 0
\* a new version only for content that differs from the last one reported
NoVersionForIdentical == [][versions' > versions => loop.rc # loop.last]_vars
DrainsEventually == []<>(evq = <<>> /\ loop.pc = "wait")

\* one line per environment history: at the states where the loop has drained (several loop states share a history)
Emit == (ops = MaxOps /\ Quiet /\ (SampleN = 1 \/ RandomElement(1..SampleN) = 1)) => PrintT(<<"CASE", ToJson([layout |-> Layout, ops |-> hist])>>)
=============================================================================
