----------------------------- MODULE DialsTrace -----------------------------
(***************************************************************************)
(* Strict conformance: a gated execution of the real library, rewritten by *)
(* vlib/conform.py into one record per scheduler step (allowed action      *)
(* names plus the logged arguments / outcomes), must be a behaviour of     *)
(* Dials.tla.  Every action of Dials.tla records itself in lastAct, so the *)
(* binding is generic: a step of the trace is any step of Next whose       *)
(* lastAct' agrees with the logged fields.  All invariants of Dials.tla    *)
(* are evaluated in every state of the reconstructed behaviour.            *)
(***************************************************************************)
EXTENDS Dials, Json

CONSTANT LogFile
T == ndJsonDeserialize(LogFile)

VARIABLE l

Names(e) == {e.as[k] : k \in DOMAIN e.as}

Match(e) ==
  /\ lastAct'.a \in Names(e)
  /\ (e.i >= 0 => lastAct'.i = e.i)
  /\ (e.op # "?" => lastAct'.op = e.op)
  /\ (e.x >= 0 => lastAct'.x = e.x)
  /\ (e.y >= 0 => lastAct'.y = e.y)
  /\ (e.h >= 0 => lastAct'.h = e.h)
  /\ (e.serial >= 0 => ver'.serial = e.serial)
  /\ (e.qlen >= 0 => Len(cbq') = e.qlen)

TraceInit == Init /\ l = 1
TraceNext == l <= Len(T) /\ Next /\ Match(T[l]) /\ l' = l + 1
TraceSpec == TraceInit /\ [][TraceNext]_<<vars, l>>

TView == <<sysVars, obsVars, l>>
Accepted == l = Len(T) + 1 => PrintT(<<"ACCEPTED", Len(T)>>)
=============================================================================
