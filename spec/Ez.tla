--------------------------------- MODULE Ez ---------------------------------
(***************************************************************************)
(* The ez entry points (ez/ez.go) as a sequential machine: a case is built *)
(* by a sequence of decisions (which layers provide each leaf, where the   *)
(* config path comes from, the state of the file, format, watching), then  *)
(* "run" computes what the entry point must return, and - with file        *)
(* watching - each later file change re-stacks under the same precedence.  *)
(* Layers in precedence order: def < file < env < flag.  Values are fixed  *)
(* per (layer, leaf) so that the winner of every leaf is identifiable.     *)
(*                                                                         *)
(* Verify (of the harness's config type) fails when the required leaf "r"  *)
(* is zero or a leaf holds a value ending in 9.  The file can be the only  *)
(* provider of "r", so some configs are valid only with the file.          *)
(***************************************************************************)
EXTENDS Naturals, Sequences, FiniteSets, TLC, Json

CONSTANTS Leaves,          \* sequence of leaf names, e.g. <<"a", "c", "r">>
          Fmts,            \* set of file formats
          MaxChanges,      \* later file changes (with watching)
          AliasLeaf,       \* "" or a leaf that carries an alias tag: the file may supply it under the alias name
          FileEncs,        \* file key casings: subset of {"none", "kebab"} ("kebab": Params.FileFieldNameEncoder re-cases the keys)
          BUG_EnvUnderFile,        \* a seeded mistake: the file overrides the environment
          BUG_VerifyIntermediate   \* a seeded mistake: the file-less intermediate stack is verified as well

LayerSeq == <<"def", "file", "env", "flag">>
Rank(L) == CHOOSE i \in 1..4 : LayerSeq[i] = L
LeafSet == {Leaves[i] : i \in 1..Len(Leaves)}
LeafIdx(l) == CHOOSE i \in 1..Len(Leaves) : Leaves[i] = l

VARIABLES step,      \* decisions taken so far
          prov,      \* [leaf -> set of layers providing it]
          pathProv,  \* layers (def/env/flag) providing the config path
          fstate,    \* "ok" | "missing" | "malformed"
          bad,       \* "" or a layer whose value for the first leaf ends in 9 (fails Verify when it wins)
          fmt, watch,
          fopt,      \* how the file spells its keys: [alias |-> the aliased leaf is written under its alias, enc |-> casing,
                     \*  emptyset |-> the file assigns [] to the set-typed leaf]
          ran,       \* the expected outcome of the entry point (after "run")
          view,      \* the expected current view (after "run")
          changes    \* later file versions with the expected outcome of each
vars == <<step, prov, pathProv, fstate, bad, fmt, watch, fopt, ran, view, changes>>

Val(L, l) == IF bad = L /\ L # "file" /\ LeafIdx(l) = 1 THEN 100 * Rank(L) + 10 * LeafIdx(l) + 9 ELSE 100 * Rank(L) + 10 * LeafIdx(l) + 1

\* the stacked value of leaf l when the file provides fileProv (a set of leaves) and is usable or not
Winner(l, withFile, fileLeaves, fbad) ==
  LET cands == {L \in prov[l] : L # "file"} \cup (IF withFile /\ l \in fileLeaves THEN {"file"} ELSE {})
      order(L) == IF BUG_EnvUnderFile THEN (CASE L = "def" -> 1 [] L = "env" -> 2 [] L = "file" -> 3 [] L = "flag" -> 4) ELSE Rank(L)
  IN IF cands = {} THEN "none" ELSE CHOOSE L \in cands : \A M \in cands : order(M) <= order(L)

ValF(L, l, fbad) == IF L = "file" /\ fbad /\ LeafIdx(l) = 1 THEN 100 * Rank(L) + 10 * LeafIdx(l) + 9 ELSE Val(L, l)

StackOf(withFile, fileLeaves, fbad) ==
  [l \in LeafSet |-> LET w == Winner(l, withFile, fileLeaves, fbad) IN IF w = "none" THEN 0 ELSE ValF(w, l, fbad)]

Valid(cfg) == cfg["r"] # 0 /\ \A l \in LeafSet : cfg[l] % 10 # 9

PathFrom == IF pathProv = {} THEN "none" ELSE CHOOSE L \in pathProv : \A M \in pathProv : Rank(M) <= Rank(L)

Init ==
  /\ step = 0
  /\ prov = [l \in LeafSet |-> {}]
  /\ pathProv = {} /\ fstate = "ok" /\ bad = "" /\ fmt \in Fmts /\ watch \in BOOLEAN
  /\ fopt = [alias |-> FALSE, enc |-> "none", emptyset |-> FALSE, emptypath |-> FALSE]
  /\ ran = [done |-> FALSE, err |-> "", verify |-> <<>>, exposed |-> 0]
  /\ view = [l \in LeafSet |-> 0]
  /\ changes = <<>>

ChooseLeaf ==
  /\ step < Len(Leaves)
  /\ \E S \in SUBSET {"def", "file", "env", "flag"} : prov' = [prov EXCEPT ![Leaves[step + 1]] = S]
  /\ step' = step + 1
  /\ UNCHANGED <<pathProv, fstate, bad, fmt, watch, fopt, ran, view, changes>>

ChooseFile ==
  /\ step = Len(Leaves)
  /\ \E P \in SUBSET {"def", "env", "flag"}, fs \in {"ok", "missing", "malformed"}, b \in {"", "file", "env", "flag"} :
       /\ pathProv' = P /\ fstate' = fs /\ bad' = b
       /\ (P = {} => fs = "ok")                      \* no path: the file state is irrelevant
       /\ (b # "" => b \in prov[Leaves[1]])          \* the bad value must actually be provided
  \* spelling of the file's keys: either name of an aliased leaf sets it, whatever casing the file uses (C14 through ez)
  \* emptyset: every version of the file also assigns the empty list to a set-typed leaf whose default is not empty (a leaf
  \* outside Leaves that only the file ever sets): while a usable file is stacked, the view's set is empty, else the default
  \* emptypath: the winning provider of the config path supplies the empty string (CFGFILE= in the environment, say) while
  \* ConfigPath still says "use it": that names no readable file - an error, never "no config file"
  /\ \E al \in BOOLEAN, enc \in FileEncs, es \in BOOLEAN, ep \in BOOLEAN :
       /\ (al => AliasLeaf \in LeafSet /\ "file" \in prov[AliasLeaf])
       /\ (ep => pathProv' # {})
       /\ fopt' = [alias |-> al, enc |-> enc, emptyset |-> es, emptypath |-> ep]
  /\ step' = step + 1
  /\ UNCHANGED <<prov, fmt, watch, ran, view, changes>>

Run ==
  /\ step = Len(Leaves) + 1
  /\ LET hasPath == pathProv # {}
         fileLeaves == {l \in LeafSet : "file" \in prov[l]}
         full == StackOf(hasPath /\ fstate = "ok" /\ ~fopt.emptypath, fileLeaves, bad = "file")
         inter == StackOf(FALSE, {}, FALSE)
         err == IF hasPath /\ (fstate # "ok" \/ fopt.emptypath) THEN "file"
                ELSE IF BUG_VerifyIntermediate /\ hasPath /\ ~Valid(inter) THEN "verify"
                ELSE IF ~Valid(full) THEN "verify" ELSE ""
     IN /\ ran' = [done |-> TRUE, err |-> err,
                   verify |-> IF err = "file" THEN <<>> ELSE <<full>>,    \* Verify runs exactly once, on the full stack
                   exposed |-> 0]                                        \* nothing reaches Events / OnNewConfig
        /\ view' = full
  /\ step' = step + 1
  /\ UNCHANGED <<prov, pathProv, fstate, bad, fmt, watch, fopt, changes>>

FileChange ==         \* the watched file is replaced
  /\ step = Len(Leaves) + 2 /\ ran.err = "" /\ watch /\ pathProv # {} /\ Len(changes) < MaxChanges
  /\ \E S \in SUBSET LeafSet, fs \in {"ok", "malformed"}, fb \in BOOLEAN :
       /\ (fb => Leaves[1] \in S /\ fs = "ok")
       /\ (fs = "malformed" => S = {})
       \* the new content differs from the previous one (identical bytes are swallowed by the watcher: see FileWatch.tla)
       /\ LET prev == IF changes = <<>> THEN [leaves |-> {l \in LeafSet : "file" \in prov[l]}, state |-> fstate, fbad |-> (bad = "file")]
                       ELSE [leaves |-> changes[Len(changes)].leaves, state |-> changes[Len(changes)].state, fbad |-> changes[Len(changes)].fbad]
          IN [leaves |-> S, state |-> fs, fbad |-> fb] # prev
       /\ LET new == StackOf(TRUE, S, fb)
              ok == fs = "ok" /\ Valid(new)
          IN /\ changes' = Append(changes, [leaves |-> S, state |-> fs, fbad |-> fb, installed |-> ok,
                                             view |-> IF ok THEN new ELSE view,
                                             err |-> IF fs # "ok" THEN "decode" ELSE IF ~Valid(new) THEN "verify" ELSE ""])
             /\ view' = IF ok THEN new ELSE view
  /\ UNCHANGED <<step, prov, pathProv, fstate, bad, fmt, watch, fopt, ran>>

Next == ChooseLeaf \/ ChooseFile \/ Run \/ FileChange
Spec == Init /\ [][Next]_vars

\* ------------------------------ properties ------------------------------
Top(l) == LET P == prov[l] \ (IF pathProv # {} /\ fstate = "ok" /\ ~fopt.emptypath THEN {} ELSE {"file"}) IN
          IF P = {} THEN "none" ELSE CHOOSE L \in P : \A M \in P : Rank(M) <= Rank(L)
ValT(l) == IF Top(l) = "none" THEN 0 ELSE ValF(Top(l), l, bad = "file")
TrueCfg == [l \in LeafSet |-> ValT(l)]
\* the first visible config obeys def < file < env < flag for every leaf
Precedence == (ran.done /\ ran.err = "" /\ changes = <<>>) => \A l \in LeafSet : view[l] = ValT(l)
\* the entry point fails with the Verify error exactly when the FULL stack does not verify
VerifyFailureIffFullInvalid ==
  ran.done => ((ran.err = "verify") <=> (~(pathProv # {} /\ (fstate # "ok" \/ fopt.emptypath)) /\ ~Valid(TrueCfg)))
\* Verify sees only the full stack, exactly once; a visible config is valid
VerifyOnlyFull == ran.done => Len(ran.verify) <= 1
VisibleValid == (ran.done /\ ran.err = "") => Valid(view)
NoIntermediateExposure == ran.exposed = 0

Case == [leaves |-> Leaves, prov |-> prov, path |-> pathProv, fstate |-> fstate, bad |-> bad, fmt |-> fmt, watch |-> watch, fopt |-> fopt,
         ran |-> ran, view0 |-> IF changes = <<>> THEN view ELSE ran.verify[1], changes |-> changes]
Emit == (step = Len(Leaves) + 2 /\ (ran.err # "" \/ ~watch \/ pathProv = {} \/ Len(changes) = MaxChanges \/ Len(changes) >= 0))
           => PrintT(<<"CASE", ToJson(Case)>>)
=============================================================================
