------------------------------ MODULE DeepCopy ------------------------------
(***************************************************************************)
(* The deep copier (deep_copy.go) on object graphs over a fixed family of  *)
(* recursive node types.  A graph has nodes 1..N and maps 1..M.  A node    *)
(* has a pointer field p, two slice elements s1, s2, an array element a,   *)
(* a map field m and an interface field i; a map has a pointer value v and *)
(* an interface value i.  References are nil, a node or (for map / iface   *)
(* slots) a map.  The copier is modelled as the depth-first walk it is,    *)
(* with its two memo tables (pointer -> copy, map -> copy) and a fuel      *)
(* counter that stands for the goroutine stack: a walk that runs out of    *)
(* fuel is the unbounded recursion that kills the process.                 *)
(*                                                                         *)
(* TLC enumerates every graph in the bound, checks that the walk           *)
(* terminates and yields an isomorphic copy with the identity relation     *)
(* among pointer- and map-typed references preserved, and emits each graph *)
(* for replay against the real copier.                                     *)
(***************************************************************************)
EXTENDS Naturals, Sequences, FiniteSets, TLC, Json

CONSTANTS N, M, MI, MM,         \* nodes 1..N, pointer-valued maps 1..M, interface-valued maps 1..MI, maps of maps 1..MM
          Slots,                \* node slots in use: subset of {"p","s1","s2","a","m","mi","mm","i"}
          Fuel,
          Boxes,                \* TRUE: an interface may also hold a struct *value* with a pointer field (a box), copied without identity
          SampleN,
          BUG_IfaceNoMemo,      \* pointers / maps held in an interface are copied without consulting the memo (pre-fix)
          BUG_MapMemoLate       \* a map is registered in the memo only after its entries were copied

Nil == [t |-> "nil", v |-> 0]
NodeRef(n) == [t |-> "node", v |-> n]
MapRef(k) == [t |-> "map", v |-> k]
NodeRefs == {Nil} \cup {NodeRef(n) : n \in 1..N}
IMapRef(k) == [t |-> "imap", v |-> k]
MapRefs == {Nil} \cup {MapRef(k) : k \in 1..M}
IMapRefs == {Nil} \cup {IMapRef(k) : k \in 1..MI}
MMapRef(k) == [t |-> "mmap", v |-> k]      \* map[string]map[string]*GNode: map-typed references held as map values
MMapRefs == {Nil} \cup {MMapRef(k) : k \in 1..MM}
BoxRef(n) == [t |-> "box", v |-> n]         \* GBox{P: node n} held by value in an interface
BoxRefs == IF Boxes THEN {BoxRef(n) : n \in 1..N} ELSE {}
AnyRefs == NodeRefs \cup MapRefs \cup IMapRefs \cup BoxRefs

SlotRange(s) == CASE s \in {"p", "s1", "s2", "a"} -> NodeRefs [] s = "m" -> MapRefs [] s = "mi" -> IMapRefs [] s = "mm" -> MMapRefs [] s = "i" -> AnyRefs
NodeVals == [Slots -> AnyRefs \cup MMapRefs]
GoodNode(nv) == \A s \in Slots : nv[s] \in SlotRange(s)

\* maps[k] = the two *GNode stored under "v" and "w" in a map[string]*GNode ; imaps[k] = the value stored under "i" in a map[string]interface{}
\* mmaps[k] = the two map[string]*GNode stored under "a" and "b"
VARIABLES nodes, maps, imaps, mmaps, res
vars == <<nodes, maps, imaps, mmaps, res>>

(* ------------------------------ the walk -------------------------------- *)
\* state threaded through the walk:
\*   pm : node -> instance (0: not copied yet)      mm : map -> instance
\*   ninst, minst : number of node / map instances created; norig[i], morig[i] : what instance i copies
\*   edges : set of [fk, f, slot, t, tk] (from kind/instance, slot, to kind/instance) of the copy
\*   fuel
St0 == [pm |-> [n \in 1..N |-> 0], mm |-> [k \in 1..M |-> 0], im |-> [k \in 1..MI |-> 0], xm |-> [k \in 1..MM |-> 0],
        norig |-> <<>>, morig |-> <<>>, iorig |-> <<>>, xorig |-> <<>>, borig |-> <<>>, edges |-> {}, fuel |-> Fuel, ret |-> 0]

RECURSIVE CopyRef(_, _, _), CopyNodeSlots(_, _, _, _), CopyNodeInto(_, _), CopyMapInto(_, _), CopyIMapInto(_, _), CopyMMapInto(_, _)

\* copies whatever ref points at; returns the state with .ret = instance id (0 for nil) -- kind is that of ref
CopyRef(st, ref, viaIface) ==
  IF st.fuel = 0 THEN st
  ELSE IF ref.t = "nil" THEN [st EXCEPT !.ret = 0]
  ELSE IF ref.t = "node" THEN
         IF st.pm[ref.v] # 0 /\ ~(viaIface /\ BUG_IfaceNoMemo)
         THEN [st EXCEPT !.ret = st.pm[ref.v]]
         ELSE CopyNodeInto([st EXCEPT !.fuel = @ - 1], ref.v)
  ELSE IF ref.t = "map" THEN
         IF st.mm[ref.v] # 0 /\ ~(viaIface /\ BUG_IfaceNoMemo)
         THEN [st EXCEPT !.ret = st.mm[ref.v]]
         ELSE CopyMapInto([st EXCEPT !.fuel = @ - 1], ref.v)
  ELSE IF ref.t = "box" THEN        \* a value: a fresh instance every time, its pointer field goes through the memo
         LET inst == Len(st.borig) + 1
             st1 == [st EXCEPT !.borig = Append(@, ref.v), !.fuel = @ - 1]
             sp == CopyRef(st1, NodeRef(ref.v), FALSE)
         IN IF sp.fuel = 0 THEN sp
            ELSE [sp EXCEPT !.edges = @ \cup {[fk |-> "box", f |-> inst, slot |-> "bp", t |-> sp.ret, tk |-> "node"]}, !.ret = inst]
  ELSE IF ref.t = "mmap" THEN
         IF st.xm[ref.v] # 0
         THEN [st EXCEPT !.ret = st.xm[ref.v]]
         ELSE CopyMMapInto([st EXCEPT !.fuel = @ - 1], ref.v)
  ELSE   IF st.im[ref.v] # 0 /\ ~(viaIface /\ BUG_IfaceNoMemo)
         THEN [st EXCEPT !.ret = st.im[ref.v]]
         ELSE CopyIMapInto([st EXCEPT !.fuel = @ - 1], ref.v)

SlotSeq == <<"p", "s1", "s2", "a", "m", "mi", "mm", "i">>

CopyNodeSlots(st, inst, n, k) ==
  IF k > Len(SlotSeq) \/ st.fuel = 0 THEN [st EXCEPT !.ret = inst]
  ELSE LET s == SlotSeq[k] IN
       IF s \notin Slots THEN CopyNodeSlots(st, inst, n, k + 1)
       ELSE LET ref == nodes[n][s]
                st1 == CopyRef(st, ref, s = "i")
                st2 == IF ref.t = "nil" \/ st1.fuel = 0 THEN st1
                       ELSE [st1 EXCEPT !.edges = @ \cup {[fk |-> "node", f |-> inst, slot |-> s, t |-> st1.ret, tk |-> ref.t]}]
            IN CopyNodeSlots(st2, inst, n, k + 1)

CopyNodeInto(st, n) ==
  LET inst == Len(st.norig) + 1
      st1 == [st EXCEPT !.norig = Append(@, n), !.pm[n] = inst]      \* registered before the fields are walked
  IN CopyNodeSlots(st1, inst, n, 1)

CopyMapInto(st, k) ==
  LET inst == Len(st.morig) + 1
      st1 == [st EXCEPT !.morig = Append(@, k), !.mm[k] = IF BUG_MapMemoLate THEN @ ELSE inst]
      sv == CopyRef(st1, maps[k].v, FALSE)
      sv2 == IF maps[k].v.t = "nil" \/ sv.fuel = 0 THEN sv
             ELSE [sv EXCEPT !.edges = @ \cup {[fk |-> "map", f |-> inst, slot |-> "v", t |-> sv.ret, tk |-> "node"]}]
      sw == CopyRef(sv2, maps[k].w, FALSE)
      sw2 == IF maps[k].w.t = "nil" \/ sw.fuel = 0 THEN sw
             ELSE [sw EXCEPT !.edges = @ \cup {[fk |-> "map", f |-> inst, slot |-> "w", t |-> sw.ret, tk |-> "node"]}]
  IN [sw2 EXCEPT !.ret = inst, !.mm[k] = IF BUG_MapMemoLate /\ @ = 0 THEN inst ELSE @]

CopyMMapInto(st, k) ==
  LET inst == Len(st.xorig) + 1
      st1 == [st EXCEPT !.xorig = Append(@, k), !.xm[k] = inst]
      sa == CopyRef(st1, mmaps[k].a, FALSE)
      sa2 == IF mmaps[k].a.t = "nil" \/ sa.fuel = 0 THEN sa
             ELSE [sa EXCEPT !.edges = @ \cup {[fk |-> "mmap", f |-> inst, slot |-> "a", t |-> sa.ret, tk |-> "map"]}]
      sb == CopyRef(sa2, mmaps[k].b, FALSE)
      sb2 == IF mmaps[k].b.t = "nil" \/ sb.fuel = 0 THEN sb
             ELSE [sb EXCEPT !.edges = @ \cup {[fk |-> "mmap", f |-> inst, slot |-> "b", t |-> sb.ret, tk |-> "map"]}]
  IN [sb2 EXCEPT !.ret = inst]

CopyIMapInto(st, k) ==
  LET inst == Len(st.iorig) + 1
      st1 == [st EXCEPT !.iorig = Append(@, k), !.im[k] = inst]
      si == CopyRef(st1, imaps[k], TRUE)
      si2 == IF imaps[k].t = "nil" \/ si.fuel = 0 THEN si
             ELSE [si EXCEPT !.edges = @ \cup {[fk |-> "imap", f |-> inst, slot |-> "i", t |-> si.ret, tk |-> imaps[k].t]}]
  IN [si2 EXCEPT !.ret = inst]

Walk == CopyRef(St0, NodeRef(1), FALSE)      \* the root is node 1 (the defaults / a source value points at it)

Init == /\ nodes \in {f \in [1..N -> NodeVals] : \A n \in 1..N : GoodNode(f[n])}
        /\ maps \in [1..M -> [v : NodeRefs, w : NodeRefs]]
        /\ imaps \in [1..MI -> AnyRefs]
        /\ mmaps \in [1..MM -> [a : MapRefs, b : MapRefs]]
        /\ res = Walk
Next == UNCHANGED vars
Spec == Init /\ [][Next]_vars

(* ---------------------------- properties -------------------------------- *)
Terminates == res.fuel > 0
\* references held in pointer- or map-typed slots that were identical in the input are identical in the copy:
\* every node / map reachable through such slots has exactly one instance
TypedEdge(e) == e.slot # "i"
OrigOf(k, i) == CASE k = "node" -> res.norig[i] [] k = "map" -> res.morig[i] [] k = "imap" -> res.iorig[i] [] k = "mmap" -> res.xorig[i] [] k = "box" -> res.borig[i]
SharingPreserved ==
  Terminates =>
    /\ \A e1, e2 \in res.edges :
         (TypedEdge(e1) /\ TypedEdge(e2) /\ e1.tk = e2.tk /\
          OrigOf(e1.tk, e1.t) = OrigOf(e2.tk, e2.t)) => e1.t = e2.t
\* the copy is isomorphic: every instance carries an edge for every non-nil slot of its original, to an instance of the right original
Isomorphic ==
  Terminates =>
    /\ \A i \in 1..Len(res.norig) : \A s \in Slots :
         LET ref == nodes[res.norig[i]][s] IN
         ref.t # "nil" => \E e \in res.edges : e.fk = "node" /\ e.f = i /\ e.slot = s /\ e.tk = ref.t /\
                             OrigOf(ref.t, e.t) = ref.v
Emit == (SampleN = 1 \/ RandomElement(1..SampleN) = 1) => PrintT(<<"CASE", ToJson([nodes |-> nodes, maps |-> maps, imaps |-> imaps, mmaps |-> mmaps])>>)
=============================================================================
