-------------------------------- MODULE Wrap --------------------------------
(***************************************************************************)
(* Source wrappers (sourcewrap/blank.go, sourcewrap/transforming_source.go) *)
(* as one sequential state machine: a Dials with a single source slot that  *)
(* holds either a Blank (Mode = "blank") or a transforming source around a  *)
(* watching inner source (Mode = "direct").  SetSource holds the Blank's    *)
(* mutex across Value + BlockingReportNewValue + Watch, so operations are   *)
(* atomic at this level; the interleavings of the reports themselves are    *)
(* the subject of Dials.tla.  That atomicity is itself checked: with        *)
(* Overlap = TRUE a SetSource may carry ovl = TRUE, "issued while the       *)
(* previous SetSource was still inside its source's Value()"; the model     *)
(* still predicts the sequential outcome (the first call holds the mutex),  *)
(* the driver really overlaps the two calls.                                *)
(*                                                                         *)
(* The model predicts, after every operation, the value the slot           *)
(* contributes to the view, whether the call reports an error, whether the *)
(* monitor is still alive and how many errors reached OnWatchedError.      *)
(* TLC enumerates every operation sequence up to MaxOps; each is emitted   *)
(* as one JSON test case and executed against the real wrappers.           *)
(***************************************************************************)
EXTENDS Naturals, Sequences, FiniteSets, TLC, Json

CONSTANTS Mode,        \* "blank" | "direct" | "tblank" (a Blank that is itself wrapped in a transforming source with mangler list Outer)
          Outer,       \* mangler list around the Blank in "tblank" mode ("none" otherwise)
          Wraps,       \* mangler lists an inner source may be wrapped in: subset of {"none","set","tag","alias","aliasset"}
          AVals,       \* values for the scalar leaf (0 = unset)
          SVals,       \* values for the set leaf: subset of {"unset","empty","p","pq"}
          MaxOps,
          Overlap,              \* TRUE: a SetSource may be issued while the previous SetSource is still inside its source's Value()
          BUG_NoReverse,        \* updates from a wrapped watcher are not reverse-translated (pre-fix behaviour)
          BUG_ReplaceWatcher    \* Blank lets a watching inner source be replaced

VARIABLES inner,    \* [kind, wrap, canReport]
          slot,     \* the value this slot currently contributes: [a, s]
          alive,    \* the monitor goroutine is running
          errs,     \* errors delivered to OnWatchedError so far
          broken,   \* an un-reverse-translated value reached the monitor (anything may happen afterwards)
          hist,     \* the operations so far with the prediction after each
          lastStatic \* the non-watching source object most recently handed to SetSource: [set, wrap]

vars == <<inner, slot, alive, errs, broken, hist, lastStatic>>

IsBlank == Mode \in {"blank", "tblank"}
\* a value with a = 13 stacks but fails Verify: it is rejected, the view keeps what it had, the caller of a blocking report gets
\* the error and OnWatchedError is told
Bad(v) == v.a = 13
Unset == [a |-> 0, s |-> "unset"]
Vals == {[a |-> a, s |-> s] : a \in AVals, s \in SVals}
Vias == {"primary", "alias"}

NoInner == [kind |-> "none", wrap |-> "none", canReport |-> FALSE]

Rec(op, v, w, via, flag, err, took) ==
  [op |-> op, a |-> v.a, s |-> v.s, wrap |-> w, via |-> via, flag |-> flag,
   err |-> err, took |-> took, ovl |-> FALSE, slota |-> slot'.a, slots |-> slot'.s, alive |-> alive', errs |-> errs', broken |-> broken']

Init ==
  /\ inner = IF IsBlank THEN NoInner ELSE [kind |-> "watcher", wrap |-> CHOOSE w \in Wraps : TRUE, canReport |-> TRUE]
  /\ slot = Unset /\ alive = TRUE /\ errs = 0 /\ broken = FALSE /\ hist = <<>>
  /\ lastStatic = [set |-> FALSE, wrap |-> "none"]

\* "direct" mode: the wrap of the configured source is the first history entry
Configure(w, v) ==
  /\ Mode = "direct" /\ hist = <<>> /\ ~Bad(v)
  /\ UNCHANGED lastStatic
  /\ inner' = [kind |-> "watcher", wrap |-> w, canReport |-> TRUE]
  /\ slot' = v /\ UNCHANGED <<alive, errs, broken>>
  /\ hist' = <<Rec("configure", v, w, "primary", FALSE, FALSE, TRUE)>>

Started == IsBlank \/ hist # <<>>

UsesAlias(w) == w \in {"alias", "aliasset"} \/ Outer \in {"alias", "aliasset"}
ViaOK(w, v, via) == via = "primary" \/ (UsesAlias(w) /\ v.a # 0)

PrevSet == hist # <<>> /\ hist[Len(hist)].op \in {"setstatic", "setwatcher"} /\ ~hist[Len(hist)].ovl
OvlOK(o) == o => (Overlap /\ PrevSet)
Ovl(r, o) == [r EXCEPT !.ovl = o]

\* Blank.SetSource with a source of kind k ("static" | "watcher") whose Value() yields v
SetCommon(opname, k, v, w, via, watchOK, o) ==
  /\ UNCHANGED <<alive, broken>>
  /\ IF inner.kind = "watcher" /\ ~BUG_ReplaceWatcher
     THEN /\ UNCHANGED <<inner, slot, errs>>
          /\ hist' = Append(hist, Ovl(Rec(opname, v, w, via, watchOK, TRUE, FALSE), o))
     ELSE IF ~alive
     THEN /\ inner' = [kind |-> k, wrap |-> w, canReport |-> FALSE]     \* inner is replaced before the report is attempted
          /\ UNCHANGED <<slot, errs>>
          /\ hist' = Append(hist, Ovl(Rec(opname, v, w, via, watchOK, TRUE, FALSE), o))
     ELSE IF Bad(v)
     THEN /\ inner' = [kind |-> k, wrap |-> w, canReport |-> FALSE]     \* the report fails: Watch is never called
          /\ UNCHANGED slot /\ errs' = errs + 1
          /\ hist' = Append(hist, Ovl(Rec(opname, v, w, via, watchOK, TRUE, FALSE), o))
     ELSE /\ inner' = [kind |-> k, wrap |-> w, canReport |-> (k = "watcher" /\ watchOK)]
          /\ slot' = v /\ UNCHANGED errs                            \* the value is reported before Watch is called
          /\ hist' = Append(hist, Ovl(Rec(opname, v, w, via, watchOK, k = "watcher" /\ ~watchOK, TRUE), o))

SetStatic(v, w, via, o) ==          \* Blank.SetSource(non-watching source)
  /\ IsBlank /\ ViaOK(w, v, via) /\ OvlOK(o)
  /\ lastStatic' = [set |-> TRUE, wrap |-> w]
  /\ SetCommon("setstatic", "static", v, w, via, FALSE, o)

\* the very same (non-watching) source object is handed to SetSource once more, after its data changed to v: a retry
SetAgain(v) ==
  /\ IsBlank /\ lastStatic.set /\ ViaOK(lastStatic.wrap, v, "primary")
  /\ UNCHANGED lastStatic
  /\ SetCommon("setagain", "static", v, lastStatic.wrap, "primary", FALSE, FALSE)

SetFailing ==                    \* the new source's Value fails: error, nothing changes
  /\ IsBlank
  /\ UNCHANGED <<inner, slot, alive, errs, broken, lastStatic>>
  /\ hist' = Append(hist, Rec("setfailing", Unset, "none", "primary", FALSE, TRUE, FALSE))

SetWatcher(v, w, via, watchOK, o) ==   \* Blank.SetSource(watching source)
  /\ IsBlank /\ ViaOK(w, v, via) /\ OvlOK(o)
  /\ UNCHANGED lastStatic
  /\ SetCommon("setwatcher", "watcher", v, w, via, watchOK, o)

InnerReport(v, via, blocking) == \* the watching inner source reports an update through the args it was given
  /\ Started /\ inner.kind = "watcher" /\ inner.canReport /\ alive /\ ~broken
  /\ ViaOK(inner.wrap, v, via)
  /\ IF BUG_NoReverse /\ inner.wrap # "none"
     THEN broken' = TRUE /\ UNCHANGED <<slot, errs>>
     ELSE IF Bad(v) THEN UNCHANGED <<slot, broken>> /\ errs' = errs + 1
     ELSE slot' = v /\ UNCHANGED <<broken, errs>>
  /\ UNCHANGED <<inner, alive, lastStatic>>
  /\ hist' = Append(hist, Rec(IF blocking THEN "reportblocking" ELSE "report", v, inner.wrap, via, FALSE,
                               blocking /\ Bad(v) /\ ~broken', ~broken' /\ ~Bad(v)))

InnerError ==                    \* the watching inner source reports an error: it must reach OnWatchedError
  /\ Started /\ inner.kind = "watcher" /\ inner.canReport /\ alive /\ ~broken
  /\ errs' = errs + 1
  /\ UNCHANGED <<inner, slot, alive, broken, lastStatic>>
  /\ hist' = Append(hist, Rec("reporterror", Unset, inner.wrap, "primary", FALSE, FALSE, FALSE))

InnerDone ==                     \* the watching inner source is finished: the monitor exits (single watching slot)
  /\ Started /\ inner.kind = "watcher" /\ inner.canReport /\ alive /\ ~broken
  /\ alive' = FALSE
  /\ UNCHANGED <<inner, slot, errs, broken, lastStatic>>
  /\ hist' = Append(hist, Rec("innerdone", Unset, inner.wrap, "primary", FALSE, FALSE, FALSE))

BlankDone ==                     \* Blank.Done: forwarded only while the Blank still owns the slot
  /\ IsBlank
  /\ alive' = IF inner.kind = "watcher" THEN alive ELSE FALSE
  /\ UNCHANGED <<inner, slot, errs, broken, lastStatic>>
  /\ hist' = Append(hist, Rec("blankdone", Unset, "none", "primary", FALSE, FALSE, FALSE))

Next ==
  /\ Len(hist) < MaxOps
  /\ \/ \E w \in Wraps, v \in Vals : Configure(w, v)
     \/ \E v \in Vals, w \in Wraps, via \in Vias, o \in BOOLEAN : SetStatic(v, w, via, o)
     \/ SetFailing
     \/ \E v \in Vals : SetAgain(v)
     \/ \E v \in Vals, w \in Wraps, via \in Vias, ok \in BOOLEAN, o \in BOOLEAN : SetWatcher(v, w, via, ok, o)
     \/ \E v \in Vals, via \in Vias, b \in BOOLEAN : InnerReport(v, via, b)
     \/ InnerError \/ InnerDone \/ BlankDone

Spec == Init /\ [][Next]_vars

\* ------------------------------ properties ------------------------------
\* C20: a wrapped watcher's update always arrives (reverse-translated): the monitor is never handed a foreign type
Transparent == ~broken
\* Blank refuses to replace a watching inner source
LastOp == hist[Len(hist)]
RefuseReplaceWatcher ==
  [][(inner.kind = "watcher" /\ Len(hist') > Len(hist) /\ hist'[Len(hist')].op \in {"setstatic", "setwatcher", "setagain"})
        => (inner' = inner /\ slot' = slot /\ hist'[Len(hist')].err)]_vars
\* Done is forwarded only while the Blank owns the slot
DoneOnlyIfOwner ==
  [][(Len(hist') > Len(hist) /\ hist'[Len(hist')].op = "blankdone" /\ inner.kind = "watcher") => alive' = alive]_vars
\* a failing inner source is an error and never changes the view
FailingChangesNothing ==
  [][(Len(hist') > Len(hist) /\ hist'[Len(hist')].op = "setfailing") => (slot' = slot /\ hist'[Len(hist')].err)]_vars

\* every explored history is emitted as one test case (a line per generated state)
Emit == hist = <<>> \/ PrintT(<<"CASE", ToJson(hist)>>)
=============================================================================
