------------------------------- MODULE Sources -------------------------------
(***************************************************************************)
(* Sources built on the type manglers (env, flag, pflag, the four file     *)
(* decoders, the ez wrappers) seen through what a user relies on:          *)
(*   - a config type is a tree of fields; a field has a name (a list of    *)
(*     lower-case words), optionally a `dials` tag (words in some casing), *)
(*     optionally a source-specific tag, optionally an alias;              *)
(*   - a source is given data for some leaves under their documented       *)
(*     names; it must set exactly those leaves (Lossless / NothingElse),   *)
(*     an aliased leaf may be given under either name, both is an error.   *)
(* The module computes, for every leaf, the documented names as word       *)
(* lists / parts (the Go driver renders the casing itself), and the        *)
(* expected outcome of each case.  A case is built by a sequence of        *)
(* decisions so that TLC can enumerate small universes and sample large    *)
(* ones (-simulate).                                                       *)
(***************************************************************************)
EXTENDS Naturals, Sequences, FiniteSets, TLC, Json

CONSTANTS Names,        \* sequence of field names (word lists); field number i is called Names[i]
          TagWords,     \* sequence of tag word lists; a tagged field number i uses TagWords[i]
          AliasWords,   \* sequence of alias word lists
          Kinds,        \* leaf kinds
          TagStyles,    \* subset of {"none", "snake", "camel", "kebab", "upper"}
          NestKinds,    \* subset of {"struct", "pstruct", "emb"}
          MaxTop, MaxSub,
          AllowAlias, AllowSrcTag, SampleN,
          BUG_PrefixLost   \* a seeded mistake in the naming rule: nested leaves lose their parent's words

VARIABLES fields, nextId, done, prefix
vars == <<fields, nextId, done, prefix>>

NoTag == [style |-> "none", words |-> <<>>]
TagOf(style, i) == IF style = "none" THEN NoTag ELSE [style |-> style, words |-> TagWords[i]]
CollKinds == {"strs", "ints", "smap", "set", "durs", "structs", "nstrs", "nmap", "lnamed", "mnamed", "knamed", "pdurs", "nkset", "nkmss", "dkmap", "estructs"}
RepeatKinds == {"strs", "ints", "smap", "set"}      \* flags for these may be repeated on the command line and accumulate
NarrowKinds == {"int8", "uint16", "named", "f32", "c64"}     \* leaf types narrower than the widest literal of their family
\* how a leaf is supplied: not at all / under its primary name / under its alias / under both (an error) / explicitly
\* empty (collections) / empty under the primary name and a value under the alias (still both: an error) / under its
\* primary name with a value outside the leaf type's range (an error)
PatsK(alias, kind) == (IF alias THEN {"neither", "primary", "alias", "both"} ELSE {"neither", "primary"})
                      \cup (IF kind \in CollKinds THEN {"empty"} ELSE {})
                      \cup (IF alias /\ kind \in CollKinds THEN {"bothempty"} ELSE {})
                      \cup (IF ~alias /\ kind \in NarrowKinds THEN {"over"} ELSE {})
                      \cup (IF ~alias /\ kind \in RepeatKinds THEN {"repeat"} ELSE {})   \* flag sources only: two occurrences, each with a part
Pats(alias) == IF alias THEN {"neither", "primary", "alias", "both"} ELSE {"neither", "primary"}

Leaf(i, kind, style, srctag, alias, pat) ==
  [id |-> i, name |-> Names[i], kind |-> kind, tag |-> TagOf(style, i), srctag |-> srctag,
   alias |-> IF alias THEN AliasWords[i] ELSE <<>>, pat |-> pat, nest |-> "", sub |-> <<>>, palias |-> FALSE]

AliasChoices == IF AllowAlias THEN BOOLEAN ELSE {FALSE}

Init == fields = <<>> /\ nextId = 1 /\ done = FALSE /\ prefix \in BOOLEAN

AddLeaf ==
  /\ ~done /\ Len(fields) < MaxTop
  /\ \E k \in Kinds, st \in TagStyles, srctag \in (IF AllowSrcTag THEN BOOLEAN ELSE {FALSE}), al \in AliasChoices :
       \E p \in PatsK(al, k) :
         /\ ~(al /\ srctag)      \* an alias combined with a source-specific tag needs a source-specific alias tag as well: not modelled
         /\ fields' = Append(fields, Leaf(nextId, k, st, srctag, al, p))
         /\ nextId' = nextId + 1
  /\ UNCHANGED <<done, prefix>>

Inner(i, nk, k, p) ==   \* a struct nested one level further down, with a single leaf
  [id |-> i, name |-> Names[i], kind |-> "", tag |-> NoTag, srctag |-> FALSE, alias |-> <<>>, pat |-> "", nest |-> nk,
   sub |-> <<Leaf(i + 1, k, "none", FALSE, FALSE, p)>>, palias |-> FALSE]
SubLeaves(n, base) ==       \* the fields of a nested struct, ids from base upwards
  IF n = 1 THEN UNION {{<<Leaf(base, k, st, FALSE, al, p)>> : k \in Kinds, st \in TagStyles \cap {"none", "snake"}, p \in Pats(al)} : al \in AliasChoices}
  ELSE IF n = 2 THEN
       UNION {{<<Leaf(base, k1, "none", FALSE, FALSE, p1), Leaf(base + 1, k2, st2, FALSE, al2, p2)>> :
                  k1 \in Kinds, k2 \in Kinds, st2 \in TagStyles \cap {"none", "snake"}, p1 \in {"neither", "primary"}, p2 \in Pats(al2)} : al2 \in AliasChoices}
  ELSE IF n = 3 THEN \* a leaf followed by a struct nested one level deeper (the deeper struct may stay entirely unset)
       {<<Leaf(base, k1, "none", FALSE, FALSE, p1), Inner(base + 1, nk, k2, p2)>> :
            k1 \in Kinds, k2 \in Kinds, nk \in NestKinds \ {"emb"}, p1 \in {"neither", "primary"}, p2 \in {"neither", "primary"}}
  ELSE \* two different structs nested one level deeper
       {<<Inner(base, nk1, k1, p1), Inner(base + 2, nk2, k2, p2)>> :
            k1 \in Kinds, k2 \in Kinds, nk1 \in NestKinds \ {"emb"}, nk2 \in NestKinds \ {"emb"},
            p1 \in {"neither", "primary"}, p2 \in {"neither", "primary"}}

AddStruct ==
  /\ ~done /\ Len(fields) < MaxTop /\ NestKinds # {}
  /\ \E nk \in NestKinds, st \in TagStyles \cap {"none", "snake", "camel"}, n \in 1..MaxSub, pa \in AliasChoices :
       \E sub \in SubLeaves(n, nextId + 1) :
         /\ (pa => nk # "emb" /\ n <= 2)
         /\ fields' = Append(fields, [id |-> nextId, name |-> Names[nextId], kind |-> "", tag |-> IF nk = "emb" THEN NoTag ELSE TagOf(st, nextId),
                                      srctag |-> FALSE, alias |-> IF pa THEN AliasWords[nextId] ELSE <<>>, pat |-> "", nest |-> nk, sub |-> sub,
                                      palias |-> pa])
         /\ nextId' = nextId + 1 + (IF n = 3 THEN 3 ELSE n)      \* (n = 4: two inner structs with one leaf each use four ids)
  /\ UNCHANGED <<done, prefix>>

Finish == ~done /\ fields # <<>> /\ done' = TRUE /\ UNCHANGED <<fields, nextId, prefix>>
Next == AddLeaf \/ AddStruct \/ Finish
Spec == Init /\ [][Next]_vars

(* ----------------------------- naming rules ----------------------------- *)
\* the words one path element contributes to an environment variable name (palias: its children are supplied under its alias)
ElemWords(f) == IF f.nest = "emb" THEN <<>> ELSE IF f.palias THEN f.alias ELSE IF f.tag.style # "none" THEN f.tag.words ELSE f.name
RECURSIVE PathWords(_)
PathWords(path) == IF path = <<>> \/ BUG_PrefixLost THEN <<>> ELSE ElemWords(path[1]) \o PathWords(Tail(path))
\* environment: UPPER_SNAKE of all the words along the path (a source-specific tag replaces everything, verbatim)
EnvWords(path, leaf, useAlias) ==
  PathWords(path) \o (IF useAlias THEN leaf.alias ELSE IF leaf.tag.style # "none" THEN leaf.tag.words ELSE leaf.name)
\* flags: one part per path element; a tagged element is used verbatim (in the tag's casing), an untagged one is kebab-cased
Part(f, useAlias) == IF useAlias THEN [style |-> "snake", words |-> f.alias]
                     ELSE IF f.tag.style # "none" THEN f.tag ELSE [style |-> "kebab", words |-> f.name]
RECURSIVE PathParts(_)
PathParts(path) == IF path = <<>> THEN <<>>
                   ELSE (IF path[1].nest = "emb" THEN <<>> ELSE <<Part(path[1], path[1].palias)>>) \o PathParts(Tail(path))
FlagParts(path, leaf, useAlias) == PathParts(path) \o <<Part(leaf, useAlias)>>

RECURSIVE LeavesUnder(_, _)
LeavesUnder(fs, path) ==     \* sequence of [path, leaf]
  IF fs = <<>> THEN <<>>
  ELSE (IF fs[1].nest = "" THEN <<[path |-> path, leaf |-> fs[1]]>> ELSE LeavesUnder(fs[1].sub, Append(path, fs[1])))
       \o LeavesUnder(Tail(fs), path)
LeavesOf(fs) == LeavesUnder(fs, <<>>)

Expect ==
  LET ls == LeavesOf(fields) IN
  [leaves |-> [k \in 1..Len(ls) |->
                 LET l == ls[k].leaf  p == ls[k].path IN
                 [id |-> l.id, kind |-> l.kind, pat |-> l.pat,
                  set |-> l.pat \in {"primary", "alias", "empty", "repeat"},
                  env |-> EnvWords(p, l, FALSE), envAlias |-> IF l.alias = <<>> THEN <<>> ELSE EnvWords(p, l, TRUE),
                  flag |-> FlagParts(p, l, FALSE), flagAlias |-> IF l.alias = <<>> THEN <<>> ELSE FlagParts(p, l, TRUE)]],
   error |-> \E k \in 1..Len(ls) : ls[k].leaf.pat \in {"both", "bothempty"},
   over |-> \E k \in 1..Len(ls) : ls[k].leaf.pat = "over"]

(* ------------------------------ properties ------------------------------ *)
\* the documented names of distinct leaves are distinct (otherwise "exactly when its variable is present" is ill-defined)
NamesDistinct ==
  done => LET e == Expect.leaves IN
          \A a, b \in 1..Len(e) : a # b => (e[a].env # e[b].env /\ e[a].flag # e[b].flag)
\* supplying both names of an aliased leaf and an out-of-range value are the only sources of an error
ErrorIffBoth == done => /\ (Expect.error <=> \E k \in 1..Len(Expect.leaves) : Expect.leaves[k].pat \in {"both", "bothempty"})
                        /\ (Expect.over <=> \E k \in 1..Len(Expect.leaves) : Expect.leaves[k].pat = "over")
                        /\ \A k \in 1..Len(Expect.leaves) : Expect.leaves[k].pat = "over" => ~Expect.leaves[k].set

Emit == (done /\ (SampleN = 1 \/ RandomElement(1..SampleN) = 1)) => PrintT(<<"CASE", ToJson([fields |-> fields, prefix |-> prefix, expect |-> Expect])>>)
=============================================================================
